#!/bin/bash
# usage: ./sweep.sh <tier> <seed>...   — runs every check at the given seeds; prints one line per run, and VIOLATION / INCONCLUSIVE lines
tier=$1; shift
for sd in "$@"; do
  for p in C01 C02 C03 C04 C05 C06 C07 C08 C09 C10 C11 C12 C13 C14 C15 C16 C17 C18 C19 C20; do
    s=$(date +%s)
    out=$(VERIF_SEED=$sd ./check $p $tier 2>&1); rc=$?
    e=$(date +%s)
    echo "SWEEP $p $tier seed=$sd rc=$rc secs=$((e-s)) viol=$(echo "$out" | grep -c '^VIOLATION') known=$(echo "$out" | grep -c '^KNOWN-FINDING') inconclusive=$(echo "$out" | grep -c '^INCONCLUSIVE')"
    echo "$out" | grep -E '^VIOLATION|^INCONCLUSIVE|BUILD-FAILED' | cut -c1-400 | head -8
  done
done
