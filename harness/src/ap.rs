//! Approx arithmetic: midpoint + radius ("the rounding allowance of DESIGN.md §3.2").
//! `Ap{v,e}` means: every correct floating-point evaluation of the documented formula may
//! legitimately return anything in [v-e, v+e]. Operations propagate radii to first order and
//! add one eps*|result| per operation. Comparisons are three-valued.
use crate::V;
use std::ops::{Add, Div, Mul, Neg, Sub};

/// machine epsilon of the ValueType of the build under test
pub const EPS: f64 = V::EPSILON as f64;
/// safety constant of the error models
pub const C: f64 = 4.0;
/// smallest positive normal of the ValueType (absolute floor for radii)
pub const TINY: f64 = V::MIN_POSITIVE as f64;

#[derive(Clone, Copy, Debug, PartialEq)]
pub struct Ap {
	pub v: f64,
	pub e: f64,
}

#[derive(Clone, Copy, Debug, PartialEq, Eq)]
pub enum Tri {
	Yes,
	No,
	Maybe,
}

impl Tri {
	pub fn and(self, o: Tri) -> Tri {
		match (self, o) {
			(Tri::No, _) | (_, Tri::No) => Tri::No,
			(Tri::Yes, Tri::Yes) => Tri::Yes,
			_ => Tri::Maybe,
		}
	}
	pub fn or(self, o: Tri) -> Tri {
		match (self, o) {
			(Tri::Yes, _) | (_, Tri::Yes) => Tri::Yes,
			(Tri::No, Tri::No) => Tri::No,
			_ => Tri::Maybe,
		}
	}
	pub fn not(self) -> Tri {
		match self {
			Tri::Yes => Tri::No,
			Tri::No => Tri::Yes,
			Tri::Maybe => Tri::Maybe,
		}
	}
	pub fn from(b: bool) -> Tri {
		if b {
			Tri::Yes
		} else {
			Tri::No
		}
	}
	pub fn is_maybe(self) -> bool {
		self == Tri::Maybe
	}
}

#[inline]
fn rnd(x: f64) -> f64 {
	// one rounding of the result in the ValueType (also covers underflow to subnormals);
	// a result that is exactly zero (difference of equal numbers, product with zero) is exact
	if x == 0.0 {
		0.0
	} else {
		EPS * x.abs() + TINY
	}
}

impl Ap {
	#[inline]
	pub const fn exact(v: f64) -> Ap {
		Ap { v, e: 0.0 }
	}
	#[inline]
	pub fn new(v: f64, e: f64) -> Ap {
		Ap { v, e: if e.is_nan() { f64::INFINITY } else { e } }
	}
	/// a value that went through `k` roundings at its own magnitude
	#[inline]
	pub fn rounded(v: f64, k: f64) -> Ap {
		Ap { v, e: k * rnd(v) }
	}
	pub const ZERO: Ap = Ap { v: 0.0, e: 0.0 };
	pub const ONE: Ap = Ap { v: 1.0, e: 0.0 };
	pub fn undefined() -> Ap {
		Ap { v: 0.0, e: f64::INFINITY }
	}
	#[inline]
	pub fn is_undefined(&self) -> bool {
		!self.e.is_finite() || !self.v.is_finite()
	}
	#[inline]
	pub fn lo(&self) -> f64 {
		self.v - self.e
	}
	#[inline]
	pub fn hi(&self) -> f64 {
		self.v + self.e
	}
	#[inline]
	pub fn mag(&self) -> f64 {
		self.v.abs() + self.e
	}
	/// widen by an extra absolute radius
	#[inline]
	pub fn widen(self, extra: f64) -> Ap {
		Ap::new(self.v, self.e + extra)
	}
	pub fn from_interval(lo: f64, hi: f64) -> Ap {
		if !(lo.is_finite() && hi.is_finite()) {
			return Ap::undefined();
		}
		if lo == hi {
			return Ap::exact(lo);
		}
		Ap { v: 0.5 * (lo + hi), e: 0.5 * (hi - lo) + EPS * lo.abs().max(hi.abs()) }
	}
	pub fn hull(self, o: Ap) -> Ap {
		if self.is_undefined() || o.is_undefined() {
			return Ap::undefined();
		}
		Ap::from_interval(self.lo().min(o.lo()), self.hi().max(o.hi()))
	}
	/// does the admissible set contain x? (slack: a relative 2 eps to absorb the reference's own f64 noise in f32 builds is not needed; we add nothing)
	#[inline]
	pub fn contains(&self, x: f64) -> bool {
		if self.is_undefined() {
			return true;
		}
		if x.is_nan() {
			return false;
		}
		(x - self.v).abs() <= self.e
	}
	/// |x-v|/e, for reporting how much of the allowance is used
	pub fn used(&self, x: f64) -> f64 {
		if self.is_undefined() || !x.is_finite() {
			return 0.0;
		}
		let d = (x - self.v).abs();
		if d == 0.0 {
			0.0
		} else if self.e == 0.0 {
			f64::INFINITY
		} else {
			d / self.e
		}
	}
	pub fn abs(self) -> Ap {
		if self.is_undefined() {
			return self;
		}
		if self.lo() >= 0.0 {
			self
		} else if self.hi() <= 0.0 {
			-self
		} else {
			Ap::from_interval(0.0, self.lo().abs().max(self.hi().abs()))
		}
	}
	pub fn max(self, o: Ap) -> Ap {
		if self.is_undefined() || o.is_undefined() {
			return Ap::undefined();
		}
		Ap::from_interval(self.lo().max(o.lo()), self.hi().max(o.hi()))
	}
	pub fn min(self, o: Ap) -> Ap {
		if self.is_undefined() || o.is_undefined() {
			return Ap::undefined();
		}
		Ap::from_interval(self.lo().min(o.lo()), self.hi().min(o.hi()))
	}
	pub fn clamp(self, lo: f64, hi: f64) -> Ap {
		if self.is_undefined() {
			return Ap::from_interval(lo, hi);
		}
		Ap::from_interval(self.lo().clamp(lo, hi), self.hi().clamp(lo, hi))
	}
	pub fn sqrt(self) -> Ap {
		if self.is_undefined() {
			return self;
		}
		let lo = self.lo().max(0.0).sqrt();
		let hi = self.hi().max(0.0).sqrt();
		let r = Ap::from_interval(lo, hi);
		r.widen(rnd(r.v))
	}
	/// monotone function applied to the interval ends
	pub fn map_mono(self, f: impl Fn(f64) -> f64, ulps: f64) -> Ap {
		if self.is_undefined() {
			return self;
		}
		let a = f(self.lo());
		let b = f(self.hi());
		let r = Ap::from_interval(a.min(b), a.max(b));
		r.widen(ulps * rnd(r.v))
	}
	pub fn scale(self, k: f64) -> Ap {
		let v = self.v * k;
		Ap::new(v, self.e * k.abs() + rnd(v))
	}
	pub fn gt(self, o: Ap) -> Tri {
		if self.is_undefined() || o.is_undefined() {
			return Tri::Maybe;
		}
		let d = self.v - o.v;
		let e = self.e + o.e;
		if d.abs() <= e {
			// exact comparison of two exact values is decidable
			if e == 0.0 {
				return Tri::from(d > 0.0);
			}
			Tri::Maybe
		} else {
			Tri::from(d > 0.0)
		}
	}
	pub fn lt(self, o: Ap) -> Tri {
		o.gt(self)
	}
	pub fn ge(self, o: Ap) -> Tri {
		self.lt(o).not()
	}
	pub fn le(self, o: Ap) -> Tri {
		self.gt(o).not()
	}
	pub fn gtf(self, x: f64) -> Tri {
		self.gt(Ap::exact(x))
	}
	pub fn ltf(self, x: f64) -> Tri {
		self.lt(Ap::exact(x))
	}
	pub fn gef(self, x: f64) -> Tri {
		self.ge(Ap::exact(x))
	}
	pub fn lef(self, x: f64) -> Tri {
		self.le(Ap::exact(x))
	}
	/// is zero certainly / certainly not / maybe
	pub fn is_zero(self) -> Tri {
		if self.is_undefined() {
			return Tri::Maybe;
		}
		if self.e == 0.0 {
			Tri::from(self.v == 0.0)
		} else if self.v.abs() > self.e {
			Tri::No
		} else {
			Tri::Maybe
		}
	}
	/// sign as a set: (may be negative, may be zero, may be positive)
	pub fn signs(self) -> (bool, bool, bool) {
		if self.is_undefined() {
			return (true, true, true);
		}
		(self.lo() < 0.0, self.lo() <= 0.0 && self.hi() >= 0.0, self.hi() > 0.0)
	}
}

impl Neg for Ap {
	type Output = Ap;
	fn neg(self) -> Ap {
		Ap { v: -self.v, e: self.e }
	}
}
impl Add for Ap {
	type Output = Ap;
	fn add(self, o: Ap) -> Ap {
		let v = self.v + o.v;
		Ap::new(v, self.e + o.e + rnd(v))
	}
}
impl Sub for Ap {
	type Output = Ap;
	fn sub(self, o: Ap) -> Ap {
		let v = self.v - o.v;
		Ap::new(v, self.e + o.e + rnd(v))
	}
}
impl Mul for Ap {
	type Output = Ap;
	fn mul(self, o: Ap) -> Ap {
		let v = self.v * o.v;
		Ap::new(v, self.v.abs() * o.e + o.v.abs() * self.e + self.e * o.e + rnd(v))
	}
}
impl Div for Ap {
	type Output = Ap;
	fn div(self, o: Ap) -> Ap {
		if self.is_undefined() || o.is_undefined() {
			return Ap::undefined();
		}
		// denominator interval containing zero: undefined within the allowance
		if o.v.abs() <= o.e || o.v == 0.0 {
			return Ap::undefined();
		}
		// interval division by ends
		let (a, b) = (self.lo(), self.hi());
		let (c, d) = (o.lo(), o.hi());
		let qs = [a / c, a / d, b / c, b / d];
		let lo = qs.iter().cloned().fold(f64::INFINITY, f64::min);
		let hi = qs.iter().cloned().fold(f64::NEG_INFINITY, f64::max);
		// midpoint = the point quotient (best estimate), radius covers the whole interval
		let v = self.v / o.v;
		let e = (hi - v).max(v - lo).max(0.0);
		Ap::new(v, e + 2.0 * rnd(v))
	}
}
impl Add<f64> for Ap {
	type Output = Ap;
	fn add(self, o: f64) -> Ap {
		self + Ap::exact(o)
	}
}
impl Sub<f64> for Ap {
	type Output = Ap;
	fn sub(self, o: f64) -> Ap {
		self - Ap::exact(o)
	}
}
impl Mul<f64> for Ap {
	type Output = Ap;
	fn mul(self, o: f64) -> Ap {
		self * Ap::exact(o)
	}
}
impl Div<f64> for Ap {
	type Output = Ap;
	fn div(self, o: f64) -> Ap {
		self / Ap::exact(o)
	}
}

/// compensated (Neumaier) summation in f64
#[derive(Clone, Copy, Debug, Default)]
pub struct KSum {
	s: f64,
	c: f64,
}
impl KSum {
	pub fn new() -> Self {
		Self::default()
	}
	#[inline]
	pub fn add(&mut self, x: f64) {
		let t = self.s + x;
		if self.s.abs() >= x.abs() {
			self.c += (self.s - t) + x;
		} else {
			self.c += (x - t) + self.s;
		}
		self.s = t;
	}
	#[inline]
	pub fn get(&self) -> f64 {
		self.s + self.c
	}
}
pub fn ksum(it: impl IntoIterator<Item = f64>) -> f64 {
	let mut k = KSum::new();
	for x in it {
		k.add(x);
	}
	k.get()
}
