//! Indicator configuration generator (DESIGN §3.4). Field names and kinds are discovered at run time
//! from the serialized configuration, so new fields are picked up automatically.
use crate::gen;
use crate::reg::{IDesc, DC};
use crate::rep::guard;
use crate::rng::{hash_str, Rng};
use crate::P;
use serde_json::{json, Map, Value};

pub const MA_KEYS: [&str; 15] = ["sma", "wma", "hma", "rma", "ema", "dma", "dema", "tma", "tema", "wsma", "smm", "swma", "trima", "lin_reg", "vidya"];
pub const SOURCE_NAMES: [&str; 8] = ["close", "open", "high", "low", "hl2", "tp", "volume", "volumed_price"];

#[derive(Clone, Debug, PartialEq)]
pub enum FieldKind {
	Period,
	Float,
	Source,
	Ma,
	Bool,
	Other,
}

pub fn field_kind(v: &Value) -> FieldKind {
	match v {
		Value::Number(n) if n.is_u64() => FieldKind::Period,
		Value::Number(_) => FieldKind::Float,
		Value::Bool(_) => FieldKind::Bool,
		Value::String(s) if SOURCE_NAMES.contains(&s.as_str()) => FieldKind::Source,
		Value::Object(m) if m.len() == 1 && MA_KEYS.contains(&m.keys().next().unwrap().as_str()) => FieldKind::Ma,
		_ => FieldKind::Other,
	}
}

pub fn fields(cfg: &dyn DC) -> Vec<(String, FieldKind, Value)> {
	match cfg.ser() {
		Ok(Value::Object(m)) => m.iter().map(|(k, v)| (k.clone(), field_kind(v), v.clone())).collect(),
		_ => vec![],
	}
}

/// a config is usable iff it validates, initialises and survives a few steps without panicking
pub fn usable(cfg: &dyn DC) -> bool {
	let cs = gen::candles(0, 99, 8, 5);
	matches!(
		guard(|| {
			if !cfg.validate() {
				return false;
			}
			match cfg.init(&cs[0]) {
				Ok(mut i) => {
					for c in &cs {
						i.next(c);
					}
					true
				}
				Err(_) => false,
			}
		}),
		Ok(true)
	)
}

fn ma_period(v: &Value) -> u64 {
	v.as_object().and_then(|m| m.values().next()).and_then(Value::as_u64).unwrap_or(1)
}
fn ma_key(v: &Value) -> String {
	v.as_object().and_then(|m| m.keys().next()).cloned().unwrap_or_default()
}
fn ma(key: &str, period: u64) -> Value {
	let mut m = Map::new();
	m.insert(key.to_string(), json!(period));
	Value::Object(m)
}

fn try_build(base: &dyn DC, obj: &Map<String, Value>) -> Option<Box<dyn DC>> {
	let c = guard(|| base.de(&Value::Object(obj.clone()))).ok()?.ok()?;
	if usable(c.as_ref()) {
		Some(c)
	} else {
		None
	}
}

/// candidate pool of valid configurations (deterministic for a seed); the default is always first
pub fn pool(d: &IDesc, seed: u64, want: usize) -> Vec<Box<dyn DC>> {
	let base = (d.default)();
	let mut out: Vec<Box<dyn DC>> = vec![base.bclone()];
	let obj = match base.ser() {
		Ok(Value::Object(m)) => m,
		_ => return out,
	};
	let fl = fields(base.as_ref());
	let mut seen: std::collections::HashSet<String> = std::collections::HashSet::new();
	seen.insert(Value::Object(obj.clone()).to_string());
	let mut push = |o: Map<String, Value>, out: &mut Vec<Box<dyn DC>>| {
		let key = Value::Object(o.clone()).to_string();
		if seen.contains(&key) {
			return;
		}
		seen.insert(key);
		if let Some(c) = try_build(base.as_ref(), &o) {
			out.push(c);
		}
	};
	let ma_fields: Vec<&(String, FieldKind, Value)> = fl.iter().filter(|f| f.1 == FieldKind::Ma).collect();
	// every MA kind on all MA fields at once (keeps same-kind constraints)
	for k in MA_KEYS {
		if ma_fields.is_empty() {
			break;
		}
		let mut o = obj.clone();
		for f in &ma_fields {
			let p = ma_period(&f.2);
			let p = if k == "wsma" { p.min(127) } else { p };
			o.insert(f.0.clone(), ma(k, p.max(2)));
		}
		push(o, &mut out);
	}
	// each MA field alone through every kind
	for f in &ma_fields {
		for k in MA_KEYS {
			let mut o = obj.clone();
			o.insert(f.0.clone(), ma(k, ma_period(&f.2).max(2)));
			push(o, &mut out);
		}
	}
	let mut rng = Rng::new(seed ^ hash_str(d.name));
	let pmax = (P::MAX as u64).min(255) - 1;
	// boundary periods per field
	for f in &fl {
		match f.1 {
			FieldKind::Period => {
				for p in [1u64, 2, 3, 4, 5, 8, 13, 21, 50, 127, 128, 200, 253, pmax] {
					let mut o = obj.clone();
					o.insert(f.0.clone(), json!(p));
					push(o, &mut out);
				}
			}
			FieldKind::Ma => {
				let k = ma_key(&f.2);
				for p in [1u64, 2, 3, 4, 5, 8, 21, 50, 127, 128, 253, pmax] {
					let mut o = obj.clone();
					o.insert(f.0.clone(), ma(&k, p));
					push(o, &mut out);
				}
			}
			FieldKind::Float => {
				for x in [0.0, 0.0005, 0.004, 0.05, 0.1, 0.25, 0.5, 0.75, 0.999, 1.0, 1.5, 2.0, 3.0] {
					let mut o = obj.clone();
					o.insert(f.0.clone(), json!(x));
					push(o, &mut out);
				}
			}
			FieldKind::Source => {
				for s in SOURCE_NAMES {
					let mut o = obj.clone();
					o.insert(f.0.clone(), json!(s));
					push(o, &mut out);
				}
			}
			FieldKind::Bool => {
				let mut o = obj.clone();
				o.insert(f.0.clone(), json!(!f.2.as_bool().unwrap_or(false)));
				push(o, &mut out);
			}
			FieldKind::Other => {}
		}
	}
	// random joint configurations
	let mut tries = 0;
	while out.len() < want && tries < want * 30 {
		tries += 1;
		let mut o = obj.clone();
		let same_kind = *rng.pick(&MA_KEYS);
		let use_same = rng.chance(0.7);
		for f in &fl {
			if rng.chance(0.35) {
				continue;
			}
			match f.1 {
				FieldKind::Period => {
					let p = if rng.chance(0.8) { 1 + rng.below(40) } else { 1 + rng.below(pmax) };
					o.insert(f.0.clone(), json!(p));
				}
				FieldKind::Ma => {
					let k = if use_same { same_kind } else { *rng.pick(&MA_KEYS) };
					let p = if rng.chance(0.8) { 2 + rng.below(40) } else { 2 + rng.below(pmax - 1) };
					o.insert(f.0.clone(), ma(k, if k == "wsma" { p.min(127) } else { p }));
				}
				FieldKind::Float => {
					let x = if rng.chance(0.12) { [0.0002, 0.0005, 0.001, 0.003][rng.below(4) as usize] } else if rng.chance(0.7) { (rng.below(101) as f64) / 100.0 } else { rng.f() * 3.0 };
					o.insert(f.0.clone(), json!(x));
				}
				FieldKind::Source => {
					o.insert(f.0.clone(), json!(*rng.pick(&SOURCE_NAMES)));
				}
				FieldKind::Bool => {
					o.insert(f.0.clone(), json!(rng.chance(0.5)));
				}
				FieldKind::Other => {}
			}
		}
		push(o, &mut out);
	}
	out
}

/// `count` valid configurations: the default, then a seed-rotated selection of the pool
pub fn configs(d: &IDesc, count: usize, seed: u64) -> Vec<Box<dyn DC>> {
	let p = pool(d, seed, count.max(8) * 3);
	if p.len() <= count {
		return p;
	}
	let mut rng = Rng::new(seed ^ hash_str(d.name) ^ 0x5EED);
	let mut idx: Vec<usize> = (1..p.len()).collect();
	// shuffle
	for i in (1..idx.len()).rev() {
		let j = rng.below(i as u64 + 1) as usize;
		idx.swap(i, j);
	}
	let mut chosen = vec![0usize];
	chosen.extend(idx.into_iter().take(count - 1));
	let mut out = Vec::new();
	for (i, c) in p.into_iter().enumerate() {
		if chosen.contains(&i) {
			out.push(c);
		}
	}
	out
}
