//! Registry: uniform dynamic wrappers around every method and every indicator of the crate,
//! so that the reference-free monitors (C08, C09, C10, C11, C13, C19, C20, C07) can be written once.
use crate::{P, V};
use serde::{de::DeserializeOwned, Serialize};
use serde_json::Value;
use crate::sv::SV;
use yata::core::{Action, Candle, Error, IndicatorConfig, IndicatorConfigDyn, IndicatorInstance, IndicatorResult, Method, Sequence, Source, OHLCV};
use yata::helpers::Peekable;
use yata::methods::*;

#[derive(Clone, Debug, PartialEq)]
pub enum In {
	V(V),
	P(V, V),
	C(Candle),
}

#[derive(Clone, Debug)]
pub enum Out {
	V(V),
	A(Action),
	I(u64),
	C(Candle),
	O(Option<Candle>),
	/// renko: (announced len, blocks as [open, close, volume] ...)
	R(u64, Vec<[V; 3]>),
}

pub fn action_code(a: Action) -> u64 {
	match a {
		Action::None => 0,
		Action::Buy(x) => 0x100 | x as u64,
		Action::Sell(x) => 0x200 | x as u64,
	}
}
pub fn vbits(x: V) -> u64 {
	x.to_bits() as u64
}
fn cbits(c: &Candle, out: &mut Vec<u64>) {
	out.extend_from_slice(&[vbits(c.open), vbits(c.high), vbits(c.low), vbits(c.close), vbits(c.volume)]);
}

impl Out {
	/// bit-level image for exact comparison
	pub fn bits(&self) -> Vec<u64> {
		let mut o = Vec::new();
		match self {
			Out::V(x) => o.push(vbits(*x)),
			Out::A(a) => o.push(action_code(*a)),
			Out::I(i) => o.push(*i),
			Out::C(c) => cbits(c, &mut o),
			Out::O(None) => o.push(0),
			Out::O(Some(c)) => {
				o.push(1);
				cbits(c, &mut o)
			}
			Out::R(n, bl) => {
				o.push(*n);
				for b in bl {
					o.extend_from_slice(&[vbits(b[0]), vbits(b[1]), vbits(b[2])]);
				}
			}
		}
		o
	}
	pub fn same(&self, o: &Out) -> bool {
		self.bits() == o.bits()
	}
	/// same up to the sign of zero and NaN payloads
	pub fn same_num(&self, o: &Out) -> bool {
		let canon = |b: Vec<u64>, s: &Out| -> Vec<u64> {
			match s {
				Out::V(x) => vec![if *x == 0.0 { 0 } else if x.is_nan() { 1 } else { b[0] }],
				_ => b,
			}
		};
		canon(self.bits(), self) == canon(o.bits(), o)
	}
	pub fn as_f(&self) -> Option<f64> {
		match self {
			Out::V(x) => Some(*x as f64),
			_ => None,
		}
	}
	pub fn floats(&self) -> Vec<f64> {
		match self {
			Out::V(x) => vec![*x as f64],
			Out::C(c) | Out::O(Some(c)) => vec![c.open as f64, c.high as f64, c.low as f64, c.close as f64, c.volume as f64],
			Out::R(_, bl) => bl.iter().flat_map(|b| b.iter().map(|x| *x as f64)).collect(),
			_ => vec![],
		}
	}
	pub fn show(&self) -> Value {
		use crate::rep::fj;
		match self {
			Out::V(x) => fj(*x as f64),
			Out::A(a) => Value::String(format!("{a:?}")),
			Out::I(i) => Value::from(*i),
			Out::C(c) => Value::String(format!("{c:?}")),
			Out::O(c) => Value::String(format!("{c:?}")),
			Out::R(n, b) => Value::String(format!("len={n} {b:?}")),
		}
	}
}

pub trait IntoOut {
	fn into_out(self) -> Out;
}
impl IntoOut for V {
	fn into_out(self) -> Out {
		Out::V(self)
	}
}
impl IntoOut for Action {
	fn into_out(self) -> Out {
		Out::A(self)
	}
}
impl IntoOut for P {
	fn into_out(self) -> Out {
		Out::I(self as u64)
	}
}
impl IntoOut for Candle {
	fn into_out(self) -> Out {
		Out::C(self)
	}
}
impl IntoOut for Option<Candle> {
	fn into_out(self) -> Out {
		Out::O(self)
	}
}
impl IntoOut for renko::RenkoOutput {
	fn into_out(self) -> Out {
		let n = self.len() as u64;
		let mut v = Vec::new();
		// an absurd announced length is itself reported by the C17 monitor; cap the iteration
		for b in self.take(100_000) {
			v.push([b.open, b.close, b.volume]);
		}
		Out::R(n, v)
	}
}

#[derive(Clone, Debug, PartialEq)]
pub enum Par {
	U,
	L(P),
	LL(P, P),
	W(Vec<V>),
	Renko(V, Source),
	Sz(usize),
}
impl Par {
	pub fn show(&self) -> Value {
		match self {
			Par::U => Value::Null,
			Par::L(l) => Value::from(*l as u64),
			Par::LL(a, b) => serde_json::json!([*a as u64, *b as u64]),
			Par::W(w) => serde_json::json!(w.iter().map(|x| *x as f64).collect::<Vec<_>>()),
			Par::Renko(s, src) => serde_json::json!([*s as f64, format!("{src:?}")]),
			Par::Sz(s) => Value::from(*s as u64),
		}
	}
	pub fn len(&self) -> usize {
		match self {
			Par::L(l) => *l as usize,
			Par::LL(a, b) => (*a as usize) + (*b as usize),
			Par::W(w) => w.len(),
			Par::Sz(s) => *s,
			_ => 1,
		}
	}
}

pub trait DM {
	fn next(&mut self, x: &In) -> Out;
	fn peek(&self) -> Option<Out>;
	fn ser(&self) -> Result<Value, String>;
	fn de(&self, v: &Value) -> Result<Box<dyn DM>, String>;
	/// bit-exact route (NaN-capable), see sv.rs
	fn ser_b(&self) -> Result<SV, String>;
	fn de_b(&self, v: &SV) -> Result<Box<dyn DM>, String>;
	/// positional flavour (structs as sequences), see sv.rs
	fn ser_p(&self) -> Result<SV, String>;
	fn bclone(&self) -> Box<dyn DM>;
}

#[derive(Clone, Copy, Debug, PartialEq, Eq)]
pub enum InKind {
	V,
	P,
	C,
}
#[derive(Clone, Copy, Debug, PartialEq, Eq)]
pub enum ParKind {
	U,
	L,
	LL,
	W,
	Renko,
	Sz,
}
/// numeric character of the output, for the comparison mode of the metamorphic monitors
#[derive(Clone, Copy, Debug, PartialEq, Eq)]
pub enum Num {
	/// exact selection / index / signal: compared bit-exactly (up to the sign of zero)
	Exact,
	/// arithmetic: compared within the error model
	Arith,
}
/// error model class of DESIGN §3.2 / A.3
#[derive(Clone, Copy, Debug, PartialEq, Eq)]
pub enum Class {
	Direct,
	Contraction,
	Accum,
	Nested,
	Cumulative,
	Select,
}

pub struct MDesc {
	pub name: &'static str,
	pub inp: InKind,
	pub par: ParKind,
	pub peek: bool,
	pub num: Num,
	pub class: Class,
	/// documented smallest valid length
	pub min_len: u64,
	/// documented largest valid length for the default PeriodType (u8)
	pub max_len: u64,
	/// explicitly cumulative / counting (exempt from C08)
	pub cumulative_when_zero: bool,
	pub ctor: fn(&Par, &In) -> Result<Box<dyn DM>, Error>,
	/// runs every batch/wrapper API of the concrete type (C09)
	pub batch: fn(&Par, &In, &[In], &[usize]) -> Vec<Batch>,
}

/// result of one batch-style API: its outputs and which reference it must equal
pub struct Batch {
	pub api: &'static str,
	pub out: Vec<Out>,
	/// 0: reference = new(par, init) then next over xs; 1: reference = new(par, xs[0]) then next over xs;
	/// 2: reference = new(par, init), one next(init), then next over xs (WithLastValue feeds the initial value once)
	pub reference: u8,
	/// harness-detected protocol error (wrong lengths, get() mismatch ...)
	pub error: Option<String>,
}

macro_rules! with_in {
	(V, $x:expr, $v:ident, $body:expr) => {
		match $x {
			In::V(v) => {
				let $v: &V = v;
				$body
			}
			_ => panic!("harness: wrong input kind"),
		}
	};
	(P, $x:expr, $v:ident, $body:expr) => {
		match $x {
			In::P(a, b) => {
				let t = (*a, *b);
				let $v: &(V, V) = &t;
				$body
			}
			_ => panic!("harness: wrong input kind"),
		}
	};
	(C, $x:expr, $v:ident, $body:expr) => {
		match $x {
			In::C(c) => {
				let $v: &dyn OHLCV = c;
				$body
			}
			_ => panic!("harness: wrong input kind"),
		}
	};
	(CC, $x:expr, $v:ident, $body:expr) => {
		match $x {
			In::C(c) => {
				let $v: &Candle = c;
				$body
			}
			_ => panic!("harness: wrong input kind"),
		}
	};
}
macro_rules! conv_par {
	(U, $p:expr) => {
		match $p {
			Par::U => (),
			_ => panic!("harness: wrong param kind"),
		}
	};
	(L, $p:expr) => {
		match $p {
			Par::L(l) => *l,
			_ => panic!("harness: wrong param kind"),
		}
	};
	(LL, $p:expr) => {
		match $p {
			Par::LL(a, b) => (*a, *b),
			_ => panic!("harness: wrong param kind"),
		}
	};
	(W, $p:expr) => {
		match $p {
			Par::W(w) => w.clone(),
			_ => panic!("harness: wrong param kind"),
		}
	};
	(Renko, $p:expr) => {
		match $p {
			Par::Renko(s, src) => (*s, *src),
			_ => panic!("harness: wrong param kind"),
		}
	};
	(Sz, $p:expr) => {
		match $p {
			Par::Sz(s) => *s,
			_ => panic!("harness: wrong param kind"),
		}
	};
}
macro_rules! peek_impl {
	(yes, $s:expr) => {
		Some(Peekable::peek(&$s.0).into_out())
	};
	(no, $s:expr) => {
		None
	};
}
macro_rules! kind_of {
	(CC) => {
		InKind::C
	};
	($k:ident) => {
		InKind::$k
	};
}

macro_rules! dm {
	($w:ident, $ty:ty, $ik:ident, $pk:ident, $peek:ident, $bk:ident) => {
		#[derive(Clone)]
		pub struct $w(pub $ty);
		impl DM for $w {
			fn next(&mut self, x: &In) -> Out {
				with_in!($ik, x, v, self.0.next(v).into_out())
			}
			fn peek(&self) -> Option<Out> {
				peek_impl!($peek, self)
			}
			fn ser(&self) -> Result<Value, String> {
				serde_json::to_value(&self.0).map_err(|e| e.to_string())
			}
			fn de(&self, v: &Value) -> Result<Box<dyn DM>, String> {
				let t: $ty = serde_json::from_value(v.clone()).map_err(|e| e.to_string())?;
				Ok(Box::new($w(t)))
			}
			fn ser_b(&self) -> Result<SV, String> {
				crate::sv::to_sv(&self.0)
			}
			fn de_b(&self, v: &SV) -> Result<Box<dyn DM>, String> {
				let t: $ty = crate::sv::from_sv(v)?;
				Ok(Box::new($w(t)))
			}
			fn ser_p(&self) -> Result<SV, String> {
				crate::sv::to_sv_positional(&self.0)
			}
			fn bclone(&self) -> Box<dyn DM> {
				Box::new(self.clone())
			}
		}
		impl $w {
			pub fn ctor(p: &Par, x: &In) -> Result<Box<dyn DM>, Error> {
				let m = with_in!($ik, x, v, <$ty as Method>::new(conv_par!($pk, p), v))?;
				Ok(Box::new($w(m)))
			}
			pub fn batch(p: &Par, init: &In, xs: &[In], chunks: &[usize]) -> Vec<Batch> {
				$bk::<$ty>(|| conv_par!($pk, p), init, xs, chunks)
			}
		}
	};
}

macro_rules! md {
	($w:ident, $name:expr, $ik:ident, $pk:ident, $peek:expr, $num:ident, $class:ident, $min:expr, $max:expr, $cum:expr) => {
		MDesc {
			name: $name,
			inp: kind_of!($ik),
			par: ParKind::$pk,
			peek: $peek,
			num: Num::$num,
			class: Class::$class,
			min_len: $min,
			max_len: $max,
			cumulative_when_zero: $cum,
			ctor: $w::ctor,
			batch: $w::batch,
		}
	};
}


// ---------------------------------------------------------------------------------------------
// batch / wrapper APIs (C09), generic over the concrete method type

fn unv(xs: &[In]) -> Vec<V> {
	xs.iter().map(|x| if let In::V(v) = x { *v } else { panic!("harness: wrong input kind") }).collect()
}
fn unc(xs: &[In]) -> Vec<Candle> {
	xs.iter().map(|x| if let In::C(c) = x { *c } else { panic!("harness: wrong input kind") }).collect()
}
fn unp(xs: &[In]) -> Vec<(V, V)> {
	xs.iter().map(|x| if let In::P(a, b) = x { (*a, *b) } else { panic!("harness: wrong input kind") }).collect()
}

fn outs<O: IntoOut>(v: Vec<O>) -> Vec<Out> {
	v.into_iter().map(IntoOut::into_out).collect()
}

/// wrappers common to every input kind: with_history, with_last_value, into_fn, new_fn
fn wrappers<T, I: ?Sized + 'static>(mk: &dyn Fn() -> T::Params, init: &I, xs: &[&I], res: &mut Vec<Batch>)
where
	T: Method<Input = I> + 'static,
	T::Output: IntoOut + Clone + std::fmt::Debug,
{
	// with_history
	if let Ok(mut h) = T::with_history(mk(), init) {
		let mut out = Vec::new();
		let mut err = None;
		for (i, x) in xs.iter().enumerate() {
			let o = h.next(x);
			out.push(o.clone().into_out());
			// get(0) is the newest output, get(i) the first, get(i+1) None
			let g0 = h.get(0).map(IntoOut::into_out);
			if g0.as_ref().map(Out::bits) != Some(out[i].bits()) {
				err = Some(format!("with_history.get(0) is not the newest output at step {i}"));
			}
			if h.get(i + 1).is_some() {
				err = Some(format!("with_history.get({}) yields beyond the history at step {i}", i + 1));
			}
			if i > 0 {
				let gl = h.get(i).map(IntoOut::into_out);
				if gl.as_ref().map(Out::bits) != Some(out[0].bits()) {
					err = Some(format!("with_history.get({i}) is not the oldest output"));
				}
			}
		}
		let via_iter: Vec<Out> = h.iter().cloned().map(IntoOut::into_out).collect();
		let via_ref: Vec<Out> = (&h).into_iter().cloned().map(IntoOut::into_out).collect();
		let via_into: Vec<Out> = h.into_iter().map(IntoOut::into_out).collect();
		let same = |a: &Vec<Out>, b: &Vec<Out>| a.len() == b.len() && a.iter().zip(b.iter()).all(|(x, y)| x.bits() == y.bits());
		if !same(&via_iter, &out) || !same(&via_ref, &out) || !same(&via_into, &out) {
			err = Some("with_history iter()/into_iter() differ from the produced outputs".into());
		}
		res.push(Batch { api: "with_history", out, reference: 0, error: err });
	}
	// with_last_value
	if let Ok(mut h) = T::with_last_value(mk(), init) {
		let mut out = Vec::new();
		let mut err = None;
		for (i, x) in xs.iter().enumerate() {
			let o = h.next(x).into_out();
			let p = h.peek().into_out();
			if p.bits() != o.bits() {
				err = Some(format!("with_last_value.peek() is not the last output at step {i}"));
			}
			out.push(o);
		}
		res.push(Batch { api: "with_last_value", out, reference: 2, error: err });
	}
}

/// reference kind 0 APIs for sized, Sequence-able inputs
macro_rules! seq_apis {
	($T:ty, $mk:expr, $init:expr, $v:expr, $chunks:expr, $res:expr) => {{
		if let Ok(mut m) = <$T as Method>::new($mk(), $init) {
			$res.push(Batch { api: "over", out: outs(m.over(&$v)), reference: 0, error: None });
		}
		if let Ok(mut m) = <$T as Method>::new($mk(), $init) {
			$res.push(Batch { api: "Sequence::call", out: outs(Sequence::call(&$v, &mut m)), reference: 0, error: None });
		}
		if let Ok(mut m) = <$T as Method>::new($mk(), $init) {
			// chunked: consecutive chunks (possibly empty) through over()
			let mut out = Vec::new();
			let mut err = None;
			let mut pos = 0usize;
			for &c in $chunks.iter() {
				let end = (pos + c).min($v.len());
				let part = m.over(&$v[pos..end]);
				if part.len() != end - pos {
					err = Some(format!("over() returned {} outputs for {} inputs", part.len(), end - pos));
				}
				out.extend(outs(part));
				pos = end;
			}
			let part = m.over(&$v[pos..]);
			if part.len() != $v.len() - pos {
				err = Some(format!("over() returned {} outputs for {} inputs", part.len(), $v.len() - pos));
			}
			out.extend(outs(part));
			$res.push(Batch { api: "over(chunked)", out, reference: 0, error: err });
		}
		if let Ok(o) = <$T as Method>::new_over($mk(), &$v) {
			$res.push(Batch { api: "new_over", out: outs(o), reference: 1, error: None });
		}
		// empty input
		match <$T as Method>::new_over($mk(), &$v[..0]) {
			Ok(o) if o.is_empty() => {}
			Ok(_) => $res.push(Batch { api: "new_over(empty)", out: vec![], reference: 1, error: Some("new_over on an empty sequence returned outputs".into()) }),
			Err(_) => {}
		}
	}};
}

fn fn_apis_sized<T, I: 'static + Clone>(mk: &dyn Fn() -> T::Params, init: &I, v: &'static [I], res: &mut Vec<Batch>)
where
	T: Method<Input = I> + 'static,
	T::Output: IntoOut,
{
	if let Ok(m) = T::new(mk(), init) {
		let mut f = m.into_fn();
		let out: Vec<Out> = v.iter().map(|x| f(x).into_out()).collect();
		res.push(Batch { api: "into_fn", out, reference: 0, error: None });
	}
}

/// leak a vector so that it can be fed to the boxed closures of into_fn/new_fn (which want one lifetime for all inputs)
fn leak<I: Clone + 'static>(v: &[I]) -> &'static [I] {
	Box::leak(v.to_vec().into_boxed_slice())
}

#[allow(non_snake_case)]
fn VV<T>(mk: impl Fn() -> T::Params, init: &In, xs: &[In], chunks: &[usize]) -> Vec<Batch>
where
	T: Method<Input = V, Output = V> + 'static,
{
	let mut res = VO::<T>(&mk, init, xs, chunks);
	let v = unv(xs);
	let init = if let In::V(i) = init { *i } else { panic!("harness") };
	if let Ok(mut m) = T::new(mk(), &init) {
		let mut w = v.clone();
		m.apply(&mut w);
		res.push(Batch { api: "apply", out: outs(w), reference: 0, error: None });
	}
	if let Ok(mut m) = T::new(mk(), &init) {
		let mut w = v.clone();
		let mut pos = 0usize;
		for &c in chunks {
			let end = (pos + c).min(w.len());
			let mut sl = &mut w[pos..end];
			Sequence::apply(&mut sl, &mut m);
			pos = end;
		}
		let mut sl = &mut w[pos..];
		Sequence::apply(&mut sl, &mut m);
		res.push(Batch { api: "Sequence::apply(chunked)", out: outs(w), reference: 0, error: None });
	}
	{
		let mut w = v.clone();
		let first_ok = v.first().map_or(false, |f| T::new(mk(), f).is_ok());
		if T::new_apply(mk(), &mut w).is_ok() {
			let err = if w.len() != v.len() { Some("new_apply changed the length".to_string()) } else { None };
			res.push(Batch { api: "new_apply", out: outs(w), reference: 1, error: err });
		} else if first_ok {
			// new() accepts these parameters with the first element: new_apply must not fail (it is new + apply)
			res.push(Batch { api: "new_apply", out: outs(v.clone()), reference: 1, error: Some("new_apply returned Err although new() accepts the same parameters and first element".to_string()) });
		}
		let mut e: Vec<V> = Vec::new();
		let _ = T::new_apply(mk(), &mut e);
	}
	res
}

#[allow(non_snake_case)]
fn VO<T>(mk: impl Fn() -> T::Params, init: &In, xs: &[In], chunks: &[usize]) -> Vec<Batch>
where
	T: Method<Input = V> + 'static,
	T::Output: IntoOut + Clone + std::fmt::Debug,
{
	let mut res = Vec::new();
	let v = unv(xs);
	let init = if let In::V(i) = init { *i } else { panic!("harness") };
	seq_apis!(T, mk, &init, v, chunks, res);
	let lv = leak(&v);
	fn_apis_sized::<T, V>(&mk, &init, lv, &mut res);
	if let Ok(mut f) = T::new_fn(mk(), &init) {
		let out: Vec<Out> = lv.iter().map(|x| f(x).into_out()).collect();
		res.push(Batch { api: "new_fn", out, reference: 0, error: None });
	}
	let refs: Vec<&V> = v.iter().collect();
	wrappers::<T, V>(&mk, &init, &refs, &mut res);
	res
}

#[allow(non_snake_case)]
fn PO<T>(mk: impl Fn() -> T::Params, init: &In, xs: &[In], _chunks: &[usize]) -> Vec<Batch>
where
	T: Method<Input = (V, V)> + 'static,
	T::Output: IntoOut + Clone + std::fmt::Debug,
{
	let mut res = Vec::new();
	let v = unp(xs);
	let init = if let In::P(a, b) = init { (*a, *b) } else { panic!("harness") };
	let lv = leak(&v);
	fn_apis_sized::<T, (V, V)>(&mk, &init, lv, &mut res);
	if let Ok(mut f) = T::new_fn(mk(), &init) {
		let out: Vec<Out> = lv.iter().map(|x| f(x).into_out()).collect();
		res.push(Batch { api: "new_fn", out, reference: 0, error: None });
	}
	let refs: Vec<&(V, V)> = v.iter().collect();
	wrappers::<T, (V, V)>(&mk, &init, &refs, &mut res);
	res
}

#[allow(non_snake_case)]
fn CO<T>(mk: impl Fn() -> T::Params, init: &In, xs: &[In], _chunks: &[usize]) -> Vec<Batch>
where
	T: Method<Input = dyn OHLCV> + 'static,
	T::Output: IntoOut + Clone + std::fmt::Debug,
{
	let mut res = Vec::new();
	let v = unc(xs);
	let init = if let In::C(c) = init { *c } else { panic!("harness") };
	let lv = leak(&v);
	if let Ok(m) = T::new(mk(), &init) {
		let mut f = m.into_fn();
		let out: Vec<Out> = lv.iter().map(|x| f(x as &dyn OHLCV).into_out()).collect();
		res.push(Batch { api: "into_fn", out, reference: 0, error: None });
	}
	if let Ok(mut f) = T::new_fn(mk(), &init) {
		let out: Vec<Out> = lv.iter().map(|x| f(x as &dyn OHLCV).into_out()).collect();
		res.push(Batch { api: "new_fn", out, reference: 0, error: None });
	}
	let refs: Vec<&dyn OHLCV> = v.iter().map(|c| c as &dyn OHLCV).collect();
	wrappers::<T, dyn OHLCV>(&mk, &init, &refs, &mut res);
	res
}

#[allow(non_snake_case)]
fn CCO<T>(mk: impl Fn() -> T::Params, init: &In, xs: &[In], chunks: &[usize]) -> Vec<Batch>
where
	T: Method<Input = Candle> + 'static,
	T::Output: IntoOut + Clone + std::fmt::Debug,
{
	let mut res = Vec::new();
	let v = unc(xs);
	let init = if let In::C(c) = init { *c } else { panic!("harness") };
	seq_apis!(T, mk, &init, v, chunks, res);
	let lv = leak(&v);
	fn_apis_sized::<T, Candle>(&mk, &init, lv, &mut res);
	let refs: Vec<&Candle> = v.iter().collect();
	wrappers::<T, Candle>(&mk, &init, &refs, &mut res);
	res
}

dm!(WSma, SMA, V, L, yes, VV);
dm!(WWma, WMA, V, L, yes, VV);
dm!(WSwma, SWMA, V, L, yes, VV);
dm!(WTrima, TRIMA, V, L, yes, VV);
dm!(WHma, HMA, V, L, yes, VV);
dm!(WLinReg, LinReg, V, L, yes, VV);
dm!(WConv, Conv, V, W, yes, VV);
dm!(WVwma, VWMA, P, L, yes, PO);
dm!(WIntegral, Integral, V, L, yes, VV);
dm!(WDerivative, Derivative, V, L, no, VV);
dm!(WMomentum, Momentum, V, L, no, VV);
dm!(WRoc, RateOfChange, V, L, no, VV);
dm!(WPast, Past<V>, V, L, yes, VV);
dm!(WStDev, StDev, V, L, yes, VV);
dm!(WMeanAbsDev, MeanAbsDev, V, L, yes, VV);
dm!(WMedianAbsDev, MedianAbsDev, V, L, yes, VV);
dm!(WCci, CCI, V, L, no, VV);
dm!(WLinVol, LinearVolatility, V, L, yes, VV);
dm!(WAdi, ADI, C, L, yes, CO);
dm!(WEma, EMA, V, L, yes, VV);
dm!(WDma, DMA, V, L, yes, VV);
dm!(WTma, TMA, V, L, yes, VV);
dm!(WDema, DEMA, V, L, yes, VV);
dm!(WTema, TEMA, V, L, yes, VV);
dm!(WRma, RMA, V, L, yes, VV);
dm!(WWsma, WSMA, V, L, yes, VV);
dm!(WSmm, SMM, V, L, yes, VV);
dm!(WVidya, Vidya, V, L, yes, VV);
dm!(WTsi, TSI, V, LL, yes, VV);
dm!(WTr, TR, C, U, no, CO);
dm!(WHeikin, HeikinAshi, C, U, no, CO);
dm!(WHighest, Highest, V, L, yes, VV);
dm!(WLowest, Lowest, V, L, yes, VV);
dm!(WHld, HighestLowestDelta, V, L, yes, VV);
dm!(WHighestIndex, HighestIndex, V, L, yes, VO);
dm!(WLowestIndex, LowestIndex, V, L, yes, VO);
dm!(WCross, Cross, P, U, no, PO);
dm!(WCrossAbove, CrossAbove, P, U, no, PO);
dm!(WCrossUnder, CrossUnder, P, U, no, PO);
dm!(WReversal, ReversalSignal, V, LL, no, VO);
dm!(WUpperReversal, UpperReversalSignal, V, LL, no, VO);
dm!(WLowerReversal, LowerReversalSignal, V, LL, no, VO);
dm!(WCollapse, CollapseTimeframe<Candle>, CC, Sz, no, CCO);
dm!(WRenko, Renko, C, Renko, no, CO);

/// largest valid length in the default build
pub const MAXL: u64 = 254;
/// kinds without a window of the full length accept PeriodType::MAX itself (u8: 255)
pub const MAXP: u64 = 255;

pub fn methods() -> Vec<MDesc> {
	vec![
		md!(WSma, "SMA", V, L, true, Arith, Accum, 1, MAXL, false),
		md!(WWma, "WMA", V, L, true, Arith, Nested, 1, MAXL, false),
		md!(WSwma, "SWMA", V, L, true, Arith, Nested, 1, MAXP, false),
		md!(WTrima, "TRIMA", V, L, true, Arith, Accum, 1, MAXL, false),
		md!(WHma, "HMA", V, L, true, Arith, Nested, 2, MAXL, false),
		md!(WLinReg, "LinReg", V, L, true, Arith, Nested, 2, MAXL, false),
		md!(WConv, "Conv", V, W, true, Arith, Direct, 1, MAXL, false),
		md!(WVwma, "VWMA", P, L, true, Arith, Accum, 1, MAXL, false),
		md!(WIntegral, "Integral", V, L, true, Arith, Accum, 0, MAXL, true),
		md!(WDerivative, "Derivative", V, L, false, Arith, Direct, 1, MAXL, false),
		md!(WMomentum, "Momentum", V, L, false, Arith, Direct, 1, MAXL, false),
		md!(WRoc, "RateOfChange", V, L, false, Arith, Direct, 1, MAXL, false),
		md!(WPast, "Past", V, L, true, Exact, Select, 1, MAXL, false),
		md!(WStDev, "StDev", V, L, true, Arith, Accum, 2, MAXL, false),
		md!(WMeanAbsDev, "MeanAbsDev", V, L, true, Arith, Accum, 1, MAXL, false),
		md!(WMedianAbsDev, "MedianAbsDev", V, L, true, Arith, Direct, 2, MAXL, false),
		md!(WCci, "CCI", V, L, false, Arith, Accum, 1, MAXL, false),
		md!(WLinVol, "LinearVolatility", V, L, true, Arith, Accum, 1, MAXL, false),
		md!(WAdi, "ADI", C, L, true, Arith, Accum, 0, MAXL, true),
		md!(WEma, "EMA", V, L, true, Arith, Contraction, 1, MAXP, false),
		md!(WDma, "DMA", V, L, true, Arith, Contraction, 1, MAXP, false),
		md!(WTma, "TMA", V, L, true, Arith, Contraction, 1, MAXP, false),
		md!(WDema, "DEMA", V, L, true, Arith, Contraction, 1, MAXP, false),
		md!(WTema, "TEMA", V, L, true, Arith, Contraction, 1, MAXP, false),
		md!(WRma, "RMA", V, L, true, Arith, Contraction, 1, MAXP, false),
		md!(WWsma, "WSMA", V, L, true, Arith, Contraction, 1, 127, false),
		md!(WSmm, "SMM", V, L, true, Exact, Select, 1, MAXL, false),
		md!(WVidya, "Vidya", V, L, true, Arith, Accum, 1, MAXL, false),
		md!(WTsi, "TSI", V, LL, true, Arith, Contraction, 1, MAXP, false),
		md!(WTr, "TR", C, U, false, Arith, Direct, 0, 0, false),
		md!(WHeikin, "HeikinAshi", C, U, false, Arith, Contraction, 0, 0, false),
		md!(WHighest, "Highest", V, L, true, Exact, Select, 1, MAXL, false),
		md!(WLowest, "Lowest", V, L, true, Exact, Select, 1, MAXL, false),
		md!(WHld, "HighestLowestDelta", V, L, true, Exact, Select, 1, MAXL, false),
		md!(WHighestIndex, "HighestIndex", V, L, true, Exact, Select, 1, MAXL, false),
		md!(WLowestIndex, "LowestIndex", V, L, true, Exact, Select, 1, MAXL, false),
		md!(WCross, "Cross", P, U, false, Exact, Select, 0, 0, false),
		md!(WCrossAbove, "CrossAbove", P, U, false, Exact, Select, 0, 0, false),
		md!(WCrossUnder, "CrossUnder", P, U, false, Exact, Select, 0, 0, false),
		md!(WReversal, "ReversalSignal", V, LL, false, Exact, Select, 1, 253, false),
		md!(WUpperReversal, "UpperReversalSignal", V, LL, false, Exact, Select, 1, 253, false),
		md!(WLowerReversal, "LowerReversalSignal", V, LL, false, Exact, Select, 1, 253, false),
		md!(WCollapse, "CollapseTimeframe", CC, Sz, false, Exact, Cumulative, 1, 1 << 20, true),
		md!(WRenko, "Renko", C, Renko, false, Arith, Cumulative, 0, 0, true),
	]
}

pub fn method(name: &str) -> MDesc {
	methods().into_iter().find(|m| m.name == name).unwrap_or_else(|| panic!("harness: unknown method {name}"))
}

// ---------------------------------------------------------------------------------------------
// indicators

pub trait DI {
	fn next(&mut self, c: &Candle) -> IndicatorResult;
	fn size(&self) -> (u8, u8);
	fn name(&self) -> &'static str;
	fn ser(&self) -> Result<Value, String>;
	fn de(&self, v: &Value) -> Result<Box<dyn DI>, String>;
	fn ser_b(&self) -> Result<SV, String>;
	fn de_b(&self, v: &SV) -> Result<Box<dyn DI>, String>;
	fn bclone(&self) -> Box<dyn DI>;
	fn cfg_ser(&self) -> Result<Value, String>;
	fn over(&mut self, cs: &[Candle]) -> Vec<IndicatorResult>;
	fn into_fn(self: Box<Self>) -> Box<dyn FnMut(&'static Candle) -> IndicatorResult>;
}

pub trait DC {
	fn name(&self) -> &'static str;
	fn const_name(&self) -> &'static str;
	fn validate(&self) -> bool;
	fn set(&mut self, name: &str, value: String) -> Result<(), Error>;
	fn size(&self) -> (u8, u8);
	fn init(&self, c: &Candle) -> Result<Box<dyn DI>, Error>;
	fn ser(&self) -> Result<Value, String>;
	fn de(&self, v: &Value) -> Result<Box<dyn DC>, String>;
	fn ser_b(&self) -> Result<SV, String>;
	fn de_b(&self, v: &SV) -> Result<Box<dyn DC>, String>;
	fn bclone(&self) -> Box<dyn DC>;
	fn as_dyn(&self) -> Box<dyn IndicatorConfigDyn<Candle>>;
	fn over(&self, cs: &[Candle]) -> Result<Vec<IndicatorResult>, Error>;
	fn init_fn(&self, c: &'static Candle) -> Result<Box<dyn FnMut(&'static Candle) -> IndicatorResult>, Error>;
}

pub struct WI<I>(pub I);
pub struct WC<C>(pub C);

impl<I> DI for WI<I>
where
	I: IndicatorInstance + Clone + Serialize + DeserializeOwned + 'static,
	I::Config: Serialize,
{
	fn next(&mut self, c: &Candle) -> IndicatorResult {
		IndicatorInstance::next(&mut self.0, c)
	}
	fn size(&self) -> (u8, u8) {
		IndicatorInstance::size(&self.0)
	}
	fn name(&self) -> &'static str {
		IndicatorInstance::name(&self.0)
	}
	fn ser(&self) -> Result<Value, String> {
		serde_json::to_value(&self.0).map_err(|e| e.to_string())
	}
	fn de(&self, v: &Value) -> Result<Box<dyn DI>, String> {
		let t: I = serde_json::from_value(v.clone()).map_err(|e| e.to_string())?;
		Ok(Box::new(WI(t)))
	}
	fn ser_b(&self) -> Result<SV, String> {
		crate::sv::to_sv(&self.0)
	}
	fn de_b(&self, v: &SV) -> Result<Box<dyn DI>, String> {
		let t: I = crate::sv::from_sv(v)?;
		Ok(Box::new(WI(t)))
	}
	fn bclone(&self) -> Box<dyn DI> {
		Box::new(WI(self.0.clone()))
	}
	fn cfg_ser(&self) -> Result<Value, String> {
		serde_json::to_value(self.0.config()).map_err(|e| e.to_string())
	}
	fn over(&mut self, cs: &[Candle]) -> Vec<IndicatorResult> {
		IndicatorInstance::over(&mut self.0, cs)
	}
	fn into_fn(self: Box<Self>) -> Box<dyn FnMut(&'static Candle) -> IndicatorResult> {
		IndicatorInstance::into_fn(self.0)
	}
}

impl<C> DC for WC<C>
where
	C: IndicatorConfig + Clone + Serialize + DeserializeOwned + 'static,
	C::Instance: IndicatorInstance<Config = C> + Clone + Serialize + DeserializeOwned + 'static,
{
	fn name(&self) -> &'static str {
		IndicatorConfig::name(&self.0)
	}
	fn const_name(&self) -> &'static str {
		C::NAME
	}
	fn validate(&self) -> bool {
		IndicatorConfig::validate(&self.0)
	}
	fn set(&mut self, name: &str, value: String) -> Result<(), Error> {
		IndicatorConfig::set(&mut self.0, name, value)
	}
	fn size(&self) -> (u8, u8) {
		IndicatorConfig::size(&self.0)
	}
	fn init(&self, c: &Candle) -> Result<Box<dyn DI>, Error> {
		let i = IndicatorConfig::init(self.0.clone(), c)?;
		Ok(Box::new(WI(i)))
	}
	fn ser(&self) -> Result<Value, String> {
		serde_json::to_value(&self.0).map_err(|e| e.to_string())
	}
	fn de(&self, v: &Value) -> Result<Box<dyn DC>, String> {
		let t: C = serde_json::from_value(v.clone()).map_err(|e| e.to_string())?;
		Ok(Box::new(WC(t)))
	}
	fn ser_b(&self) -> Result<SV, String> {
		crate::sv::to_sv(&self.0)
	}
	fn de_b(&self, v: &SV) -> Result<Box<dyn DC>, String> {
		let t: C = crate::sv::from_sv(v)?;
		Ok(Box::new(WC(t)))
	}
	fn bclone(&self) -> Box<dyn DC> {
		Box::new(WC(self.0.clone()))
	}
	fn as_dyn(&self) -> Box<dyn IndicatorConfigDyn<Candle>> {
		Box::new(self.0.clone())
	}
	fn over(&self, cs: &[Candle]) -> Result<Vec<IndicatorResult>, Error> {
		IndicatorConfig::over(self.0.clone(), cs)
	}
	fn init_fn(&self, c: &'static Candle) -> Result<Box<dyn FnMut(&'static Candle) -> IndicatorResult>, Error> {
		IndicatorConfig::init_fn(self.0.clone(), c)
	}
}

pub struct IDesc {
	pub name: &'static str,
	pub default: fn() -> Box<dyn DC>,
}

macro_rules! ind {
	($t:ty) => {
		IDesc { name: <$t as IndicatorConfig>::NAME, default: || Box::new(WC(<$t>::default())) }
	};
}

pub fn indicators() -> Vec<IDesc> {
	use yata::indicators::*;
	vec![
		ind!(Aroon),
		ind!(AverageDirectionalIndex),
		ind!(AwesomeOscillator),
		ind!(BollingerBands),
		ind!(ChaikinMoneyFlow),
		ind!(ChaikinOscillator),
		ind!(ChandeKrollStop),
		ind!(ChandeMomentumOscillator),
		ind!(CommodityChannelIndex),
		ind!(CoppockCurve),
		ind!(DetrendedPriceOscillator),
		ind!(DonchianChannel),
		ind!(EaseOfMovement),
		ind!(EldersForceIndex),
		ind!(Envelopes),
		ind!(FisherTransform),
		ind!(HullMovingAverage),
		ind!(IchimokuCloud),
		ind!(Kaufman),
		ind!(KeltnerChannel),
		ind!(KlingerVolumeOscillator),
		ind!(KnowSureThing),
		ind!(MACD),
		ind!(MomentumIndex),
		ind!(MoneyFlowIndex),
		ind!(ParabolicSAR),
		ind!(PivotReversalStrategy),
		ind!(PriceChannelStrategy),
		ind!(RelativeStrengthIndex),
		ind!(RelativeVigorIndex),
		ind!(SMIErgodicIndicator),
		ind!(StochasticOscillator),
		ind!(Trix),
		ind!(TrendStrengthIndex),
		ind!(TrueStrengthIndex),
		ind!(WoodiesCCI),
	]
}

pub fn indicator(name: &str) -> IDesc {
	indicators().into_iter().find(|m| m.name == name).unwrap_or_else(|| panic!("harness: unknown indicator {name}"))
}

/// indicator results as bit images
pub fn res_bits(r: &IndicatorResult) -> Vec<u64> {
	let mut o = vec![r.values().len() as u64, r.signals().len() as u64];
	for v in r.values() {
		o.push(vbits(*v));
	}
	for s in r.signals() {
		o.push(action_code(*s));
	}
	o
}

// ---------------------------------------------------------------- content hashes (distinct-case accounting, rep::Report::case)
fn fold(h: u64, x: u64) -> u64 {
	let mut z = (h ^ x).wrapping_add(0x9E37_79B9_7F4A_7C15);
	z = (z ^ (z >> 30)).wrapping_mul(0xBF58_476D_1CE4_E5B9);
	z = (z ^ (z >> 27)).wrapping_mul(0x94D0_49BB_1331_11EB);
	z ^ (z >> 31)
}
pub fn words_hash(ws: impl IntoIterator<Item = u64>) -> u64 {
	ws.into_iter().fold(0x1357_9BDF_0246_8ACE, fold)
}
pub fn f64s_hash(xs: &[f64]) -> u64 {
	words_hash(xs.iter().map(|x| x.to_bits()))
}
pub fn candle_hash(c: &Candle) -> u64 {
	words_hash([vbits(c.open), vbits(c.high), vbits(c.low), vbits(c.close), vbits(c.volume)])
}
pub fn candles_hash(cs: &[Candle]) -> u64 {
	words_hash(cs.iter().map(candle_hash))
}
pub fn ins_hash(xs: &[In]) -> u64 {
	words_hash(xs.iter().map(|x| match x {
		In::V(v) => vbits(*v),
		In::P(a, b) => fold(vbits(*a), vbits(*b)),
		In::C(c) => candle_hash(c),
	}))
}
pub fn json_hash(v: &Value) -> u64 {
	crate::rng::hash_str(&v.to_string())
}
