//! Report of one shard: evaluations, coverage cells, violations (deduplicated by signature), samples.
use serde_json::{json, Map, Value};
use std::cell::RefCell;
use std::collections::{BTreeMap, BTreeSet};
use std::panic::{catch_unwind, AssertUnwindSafe};

#[derive(Default)]
pub struct Report {
	pub prop: String,
	pub evaluations: u64,
	pub cells: BTreeMap<String, u64>,
	pub viol: BTreeMap<String, (u64, String, Value)>,
	pub samples: Vec<Value>,
	pub counters: BTreeMap<String, u64>,
	pub maxes: BTreeMap<String, f64>,
	pub inconclusive: Vec<String>,
	pub notes: Vec<String>,
	pub sample_cap: usize,
	/// K-minimum-values sketch of the hashes of the distinct non-trivial cases this shard judged (exact below K cases);
	/// the driver unions the sketches of all shards and rounds, so repeated cases are counted once
	pub kmv: BTreeSet<u64>,
	kmv_max: u64,
	pub case_calls: u64,
}

pub const KMV_K: usize = 4096;
#[inline]
fn mix64(mut z: u64) -> u64 {
	z = z.wrapping_add(0x9E37_79B9_7F4A_7C15);
	z = (z ^ (z >> 30)).wrapping_mul(0xBF58_476D_1CE4_E5B9);
	z = (z ^ (z >> 27)).wrapping_mul(0x94D0_49BB_1331_11EB);
	z ^ (z >> 31)
}

impl Report {
	pub fn new(prop: &str) -> Self {
		Self { prop: prop.to_string(), sample_cap: 8, ..Default::default() }
	}
	#[inline]
	pub fn eval(&mut self, n: u64) {
		self.evaluations += n;
	}
	/// registers one distinct non-trivial case (identified by the words that determine it: what was built, with which
	/// parameters, over which generated input) - call it once per judged case, not per oracle decision
	#[inline]
	pub fn case(&mut self, parts: &[u64]) {
		let mut h = 0x243F_6A88_85A3_08D3u64;
		for p in parts {
			h = mix64(h ^ *p);
		}
		self.case_hash(h);
	}
	#[inline]
	pub fn case_hash(&mut self, h: u64) {
		self.case_calls += 1;
		if self.kmv.len() < KMV_K {
			self.kmv.insert(h);
			if self.kmv.len() == KMV_K {
				self.kmv_max = *self.kmv.iter().next_back().unwrap();
			}
		} else if h < self.kmv_max && self.kmv.insert(h) {
			let mx = self.kmv_max;
			self.kmv.remove(&mx);
			self.kmv_max = *self.kmv.iter().next_back().unwrap();
		}
	}
	pub fn case_named(&mut self, name: &str, parts: &[u64]) {
		let mut v = vec![crate::rng::hash_str(name)];
		v.extend_from_slice(parts);
		self.case(&v);
	}
	pub fn cell(&mut self, name: &str) {
		*self.cells.entry(name.to_string()).or_insert(0) += 1;
	}
	pub fn cell_n(&mut self, name: &str, n: u64) {
		if n > 0 {
			*self.cells.entry(name.to_string()).or_insert(0) += n;
		}
	}
	pub fn count(&mut self, name: &str, n: u64) {
		*self.counters.entry(name.to_string()).or_insert(0) += n;
	}
	pub fn max(&mut self, name: &str, x: f64) {
		if x.is_nan() {
			return;
		}
		let e = self.maxes.entry(name.to_string()).or_insert(f64::NEG_INFINITY);
		if x > *e {
			*e = x;
		}
	}
	/// record a violation; the case is only built for the first witness of a signature
	pub fn violate(&mut self, sig: &str, what: &str, case: impl FnOnce() -> Value) {
		match self.viol.get_mut(sig) {
			Some(e) => e.0 += 1,
			None => {
				self.viol.insert(sig.to_string(), (1, what.to_string(), case()));
			}
		}
	}
	pub fn has(&self, sig: &str) -> bool {
		self.viol.contains_key(sig)
	}
	pub fn sample(&mut self, v: impl FnOnce() -> Value) {
		if self.samples.len() < self.sample_cap {
			self.samples.push(v());
		}
	}
	/// an actual judged case written out for the evidence file, taken every `every`-th registered case (so that the few
	/// samples kept are spread over the workload instead of being the first ones)
	pub fn sample_case(&mut self, every: u64, v: impl FnOnce() -> Value) {
		if self.samples.len() < self.sample_cap && self.case_calls % every.max(1) == 1 % every.max(1) {
			self.samples.push(v());
		}
	}
	pub fn inconclusive(&mut self, why: &str) {
		self.inconclusive.push(why.to_string());
	}
	pub fn note(&mut self, s: &str) {
		if !self.notes.iter().any(|x| x == s) {
			self.notes.push(s.to_string());
		}
	}
	pub fn to_json(&self) -> Value {
		let mut viol = Vec::new();
		for (sig, (n, what, case)) in &self.viol {
			viol.push(json!({"sig": sig, "count": n, "what": what, "case": case}));
		}
		let mut maxes = Map::new();
		for (k, v) in &self.maxes {
			maxes.insert(k.clone(), json!(v));
		}
		json!({
			"prop": self.prop,
			"evaluations": self.evaluations,
			"cells": self.cells,
			"violations": viol,
			"samples": self.samples,
			"counters": self.counters,
			"maxes": maxes,
			"inconclusive": self.inconclusive,
			"notes": self.notes,
			"case_calls": self.case_calls,
			"kmv_k": KMV_K,
			"kmv": self.kmv.iter().map(|h| format!("{h:016x}")).collect::<Vec<_>>(),
		})
	}
}

thread_local! {
	static LAST_PANIC: RefCell<Option<(String, String)>> = RefCell::new(None);
}

/// installs a silent panic hook that remembers message and location
pub fn install_panic_hook() {
	std::panic::set_hook(Box::new(|info| {
		let msg = if let Some(s) = info.payload().downcast_ref::<&str>() {
			(*s).to_string()
		} else if let Some(s) = info.payload().downcast_ref::<String>() {
			s.clone()
		} else {
			"<non-string panic>".to_string()
		};
		let loc = info.location().map(|l| format!("{}:{}", l.file(), l.line())).unwrap_or_default();
		LAST_PANIC.with(|p| *p.borrow_mut() = Some((msg, loc)));
	}));
}

#[derive(Debug, Clone)]
pub struct Panic {
	pub msg: String,
	pub loc: String,
}

impl Panic {
	/// coarse class of the message, stable across inputs (digits removed)
	pub fn class(&self) -> String {
		let m = &self.msg;
		let c = if m.contains("YATA_VERIF_OOB") {
			"verif-oob"
		} else if m.contains("attempt to add with overflow") {
			"add-overflow"
		} else if m.contains("attempt to subtract with overflow") {
			"sub-overflow"
		} else if m.contains("attempt to multiply with overflow") {
			"mul-overflow"
		} else if m.contains("attempt to divide by zero") || m.contains("remainder with a divisor of zero") {
			"div-by-zero"
		} else if m.contains("index out of bounds") || m.contains("out of range for slice") || m.contains("is out of range") {
			"index-oob"
		} else if m.contains("PeriodType overflow") {
			"window-new-assert"
		} else if m.contains("empty window") {
			"empty-window-assert"
		} else if m.contains("slice index starts at") {
			"slice-order"
		} else if m.contains("unwrap") {
			"unwrap"
		} else if m.contains("assertion") {
			"assertion"
		} else if m.contains("capacity overflow") {
			"capacity-overflow"
		} else {
			"other"
		};
		c.to_string()
	}
	/// file name (no line) of the panic site, relative to src/
	pub fn file(&self) -> String {
		let l = self.loc.split(':').next().unwrap_or("");
		match l.rfind("src/") {
			Some(i) => l[i + 4..].to_string(),
			None => l.to_string(),
		}
	}
}

/// runs f, converting a panic into Err
pub fn guard<R>(f: impl FnOnce() -> R) -> Result<R, Panic> {
	LAST_PANIC.with(|p| *p.borrow_mut() = None);
	match catch_unwind(AssertUnwindSafe(f)) {
		Ok(r) => Ok(r),
		Err(_) => {
			let (msg, loc) = LAST_PANIC.with(|p| p.borrow_mut().take()).unwrap_or_default();
			Err(Panic { msg, loc })
		}
	}
}

/// floats for humans: finite numbers as numbers, others as strings
pub fn fj(x: f64) -> Value {
	if x.is_finite() {
		json!(x)
	} else {
		json!(format!("{x}"))
	}
}
pub fn fjs(xs: &[f64]) -> Value {
	Value::Array(xs.iter().map(|&x| fj(x)).collect())
}
