//! C04 — extremum, arg-extremum and median methods are exact selections.
use crate::gen;
use crate::rep::{fjs, guard, Report};
use crate::rng::Rng;
use crate::{Ctx, P, V};
use serde_json::{json, Value};
use yata::core::Method;
use yata::helpers::Peekable;
use yata::methods::{Highest, HighestIndex, HighestLowestDelta, Lowest, LowestIndex, MedianAbsDev, SMM};

struct Insts {
	hi: Highest,
	lo: Lowest,
	d: HighestLowestDelta,
	hii: HighestIndex,
	loi: LowestIndex,
	smm: SMM,
	mad: Option<MedianAbsDev>,
}

/// numeric equality (so +0 == -0); NaN never equal
fn numeq(a: f64, b: f64) -> bool {
	a == b
}

#[derive(Default)]
struct Events {
	ext_leaves: u64,
	tie_enters: u64,
	tie_leaves: u64,
	zero_mix: u64,
	monotone: u64,
	mixed_sign: u64,
}

/// run all selection methods of length n over xs (xs[0] is also the construction value)
pub fn check_stream(n: usize, xs: &[f64], tag: &str, full_window_check: bool, r: &mut Report) -> bool {
	r.case(&[4, n as u64, crate::reg::f64s_hash(xs)]);
	let init = xs[0] as V;
	let made = guard(|| {
		Some(Insts {
			hi: Highest::new(n as P, &init).ok()?,
			lo: Lowest::new(n as P, &init).ok()?,
			d: HighestLowestDelta::new(n as P, &init).ok()?,
			hii: HighestIndex::new(n as P, &init).ok()?,
			loi: LowestIndex::new(n as P, &init).ok()?,
			smm: SMM::new(n as P, &init).ok()?,
			mad: if n >= 2 { MedianAbsDev::new(n as P, &init).ok() } else { None },
		})
	});
	let mut m = match made {
		Ok(Some(m)) => m,
		Ok(None) => {
			r.violate("C04|constructor|rejects-valid-length", "a selection method rejected a documented-valid length", || json!({"n": n}));
			return false;
		}
		Err(p) => {
			r.violate(&format!("C04|constructor|panic:{}", p.class()), &p.msg, || json!({"n": n}));
			return false;
		}
	};
	let mut win: std::collections::VecDeque<f64> = std::iter::repeat(xs[0]).take(n).collect();
	let mut ev = Events::default();
	let mut run = 0usize;
	let mut ok = true;
	for (i, &x) in xs.iter().enumerate() {
		let old = win.pop_front().unwrap();
		// events before the push (relative to the window that is about to change)
		let prev_max = win.iter().cloned().fold(old, f64::max);
		let prev_min = win.iter().cloned().fold(old, f64::min);
		if n > 1 && (old == prev_max || old == prev_min) {
			ev.ext_leaves += 1;
			if win.iter().any(|&y| y == old) {
				ev.tie_leaves += 1;
			}
		}
		if win.iter().any(|&y| y == x) {
			ev.tie_enters += 1;
		}
		win.push_back(x);
		if win.iter().any(|y| *y == 0.0 && y.is_sign_negative()) && win.iter().any(|y| *y == 0.0 && y.is_sign_positive()) {
			ev.zero_mix += 1;
		}
		if win.iter().any(|y| *y < 0.0) && win.iter().any(|y| *y > 0.0) {
			ev.mixed_sign += 1;
		}
		if i > 0 && x > xs[i - 1] {
			run += 1;
			if run >= n {
				ev.monotone += 1;
			}
		} else {
			run = 0;
		}
		// expected selections
		let e_max = win.iter().cloned().fold(f64::NEG_INFINITY, f64::max);
		let e_min = win.iter().cloned().fold(f64::INFINITY, f64::min);
		// age (0 = newest) of the newest maximal / minimal element
		let e_hi_age = win.iter().rev().position(|&y| y == e_max).unwrap();
		let e_lo_age = win.iter().rev().position(|&y| y == e_min).unwrap();
		let mut sorted: Vec<f64> = win.iter().cloned().collect();
		sorted.sort_by(|a, b| a.partial_cmp(b).unwrap());
		let e_med = (sorted[n / 2] + sorted[(n - 1) / 2]) * 0.5;
		let xv = x as V;
		let res = guard(|| (m.hi.next(&xv), m.lo.next(&xv), m.d.next(&xv), m.hii.next(&xv), m.loi.next(&xv), m.smm.next(&xv), m.mad.as_mut().map(|q| q.next(&xv))));
		let case = |what: &str, got: Value, want: Value| {
			let from = i.saturating_sub(n + 6);
			json!({"n": n, "step": i, "method": what, "got": got, "expected": want, "window_oldest_first": fjs(&win.iter().cloned().collect::<Vec<_>>()), "recent_inputs": fjs(&xs[from..=i]), "stream": if i < 64 { fjs(&xs[..=i]) } else { Value::Null }, "stream_class": tag})
		};
		let zeros = if ev.zero_mix > 0 { "with-signed-zeros-in-window" } else { "plain" };
		match res {
			Err(p) => {
				r.violate(&format!("C04|selection|panic:{}|{zeros}", p.class()), &format!("{} at {}", p.msg, p.loc), || case("any", Value::Null, Value::Null));
				ok = false;
				break;
			}
			Ok((hi, lo, d, hii, loi, med, mad)) => {
				r.eval(6);
				if !numeq(hi as f64, e_max) {
					r.violate("C04|Highest|wrong", "Highest is not the maximum of the last n inputs", || case("Highest", json!(hi as f64), json!(e_max)));
					ok = false;
				}
				if !numeq(lo as f64, e_min) {
					r.violate("C04|Lowest|wrong", "Lowest is not the minimum of the last n inputs", || case("Lowest", json!(lo as f64), json!(e_min)));
					ok = false;
				}
				let e_d = ((e_max as V) - (e_min as V)) as f64;
				if !numeq(d as f64, e_d) {
					r.violate("C04|HighestLowestDelta|wrong", "HighestLowestDelta is not max - min", || case("HighestLowestDelta", json!(d as f64), json!(e_d)));
					ok = false;
				}
				if hii as usize != e_hi_age {
					r.violate("C04|HighestIndex|wrong", "HighestIndex is not the age of the newest maximal element", || case("HighestIndex", json!(hii as u64), json!(e_hi_age)));
					ok = false;
				}
				if loi as usize != e_lo_age {
					r.violate("C04|LowestIndex|wrong", "LowestIndex is not the age of the newest minimal element", || case("LowestIndex", json!(loi as u64), json!(e_lo_age)));
					ok = false;
				}
				let e_med_v = ((sorted[n / 2] as V + sorted[(n - 1) / 2] as V) * 0.5) as f64;
				if !numeq(med as f64, e_med_v) {
					r.violate(&format!("C04|SMM|wrong-median|{zeros}"), "SMM is not the median of the last n inputs", || case("SMM", json!(med as f64), json!(e_med)));
					ok = false;
				}
				// peek of every Peekable selection method equals its output
				if m.hi.peek().to_bits() != hi.to_bits() || m.lo.peek().to_bits() != lo.to_bits() || m.smm.peek().to_bits() != med.to_bits() || m.hii.peek() != hii || m.loi.peek() != loi {
					r.violate("C04|peek|differs", "peek differs from the output", || case("peek", Value::Null, Value::Null));
				}
				if let Some(_) = mad {
					let inner = m.mad.as_ref().unwrap().get_smm().peek() as f64;
					if !numeq(inner, e_med_v) {
						r.violate(&format!("C04|MedianAbsDev|inner-median-wrong|{zeros}"), "the median inside MedianAbsDev is not the median of the last n inputs", || case("MedianAbsDev.get_smm()", json!(inner), json!(e_med)));
						ok = false;
					}
					r.eval(1);
				}
				if full_window_check || i % 17 == 0 {
					// SMM's window against the model
					let w: Vec<f64> = m.smm.get_window().iter().map(|y| *y as f64).collect();
					let model: Vec<f64> = win.iter().rev().cloned().collect();
					if w.len() != model.len() || w.iter().zip(model.iter()).any(|(a, b)| a.to_bits() != b.to_bits()) {
						r.violate("C04|SMM|get_window-differs", "SMM::get_window is not the last n inputs", || case("SMM::get_window", fjs(&w), fjs(&model)));
						ok = false;
					}
				}
			}
		}
		if !ok && r.viol.len() > 12 {
			break;
		}
	}
	for (name, cnt) in [("extremum-leaves", ev.ext_leaves), ("tie-enters", ev.tie_enters), ("tie-leaves-as-extremum", ev.tie_leaves), ("signed-zero-mix-in-window", ev.zero_mix), ("monotone-run>=n", ev.monotone), ("mixed-sign-window", ev.mixed_sign)] {
		let bucket = if n <= 6 { "n<=6" } else if n <= 40 { "n<=40" } else { "n>40" };
		r.cell_n(&format!("event:{name}:{bucket}"), cnt);
	}
	r.sample_case(53, || json!({"window length": n, "tag": tag, "stream (first 16)": crate::rep::fjs(&xs[..xs.len().min(16)]), "steps": xs.len(), "judged": "Highest, Lowest, HighestLowestDelta, HighestIndex, LowestIndex, SMM, MedianAbsDev vs a sorted copy of the model window, with ==", "verdict": if ok { "held" } else { "violated" }}));
	ok
}

pub fn run(ctx: &Ctx, r: &mut Report) {
	if let Some(rp) = &ctx.replay {
		let c = &rp["case"];
		if let Some(st) = c.get("stream").and_then(Value::as_array) {
			let xs: Vec<f64> = st.iter().map(|x| x.as_f64().unwrap_or(f64::NAN)).collect();
			check_stream(c["n"].as_u64().unwrap_or(1) as usize, &xs, "replay", true, r);
			return;
		}
		r.inconclusive("replay: the failing stream is longer than 64 steps; re-run the check with the recorded seed");
		return;
	}
	let miri = ctx.arg.as_deref() == Some("miri");
	// exhaustive: all sequences of length L over two 4-symbol alphabets x every length 1..=6
	// the fourth alphabet lives in the subnormal range (odd multiples of the smallest positive value: halving them is inexact)
	let tiny = V::from_bits(1) as f64;
	let alph: [[f64; 4]; 4] = [[-0.0, 0.0, 1.0, 2.0], [0.0, 1.0, 2.0, 3.0], [-1.0, -0.0, 0.0, 1.0], [tiny, 3.0 * tiny, -tiny, 2.0 * tiny]];
	let l = if miri { 5 } else { ctx.pick(9, 11) };
	let mut k = 0u64;
	for (ai, a) in alph.iter().enumerate() {
		gen::for_all_sequences(4, l, |idx| {
			k += 1;
			if !ctx.mine(k) {
				return;
			}
			if miri && k % 22 != ctx.seed % 22 {
				return;
			}
			let xs: Vec<f64> = idx.iter().map(|&i| a[i]).collect();
			let n = 1 + (k as usize / 3) % 6;
			check_stream(n, &xs, &format!("exhaustive-alphabet{ai}"), true, r);
		});
	}
	r.cell(&format!("exhaustive:4x4^{l}"));
	if miri {
		return;
	}
	// every length x hostile classes
	let classes = [1usize, 2, 4, 5, 6, 3, 7];
	let maxn = if P::MAX as u64 > 255 { 300 } else { 254 };
	for n in 1..=maxn {
		let per = ctx.pick(2, classes.len());
		for j in 0..per {
			k += 1;
			if !ctx.mine(k) {
				continue;
			}
			let class = classes[(n + j + ctx.seed as usize) % classes.len()];
			let mut xs = gen::values(class, ctx.seed ^ (n as u64) << 16 ^ j as u64, 800.min(4 * n + 200), n);
			for x in xs.iter_mut() {
				if !x.is_finite() {
					*x = 0.0;
				}
			}
			// make some streams mixed-sign
			if class == 2 || class == 6 {
				let mut rng = Rng::new(ctx.seed ^ n as u64);
				if rng.chance(0.5) {
					let mid = xs.iter().cloned().fold(0.0, f64::max) * 0.5;
					for x in xs.iter_mut() {
						*x = gen::q(*x - mid);
					}
				}
			}
			if (n + j) % 5 == 0 {
				// small integers times the smallest positive value: a stream in the subnormal range
				for x in xs.iter_mut() {
					*x = ((*x * 4.0).round() % 64.0) * tiny;
				}
				check_stream(n, &xs, "subnormal-range", false, r);
				r.cell("class:subnormal-range");
			} else {
				check_stream(n, &xs, gen::VALUE_CLASSES[class], false, r);
			}
			r.cell(&format!("length:{n}"));
		}
	}
	if ctx.mine(0) {
		r.sample(|| json!({"n": 4, "stream": [-0.0, 0.0, 0.0, -1.0, -0.0, 0.0, -1.0], "oracle": "max/min/age of newest extremum/median of the model window, compared with == (no tolerance)"}));
	}
}
