//! C15 — moving averages are averages: affine-equivariant, range-preserving, linear, with the documented impulse response.
//! Metamorphic oracles over pairs/triples of runs of the same build.
use crate::ap::{C, EPS};
use crate::errm::radius;
use crate::gen;
use crate::refm::{linreg_weights, make_ref, swma_weights, wma_weights};
use crate::reg::{self, Class, In, MDesc, Out, Par};
use crate::rep::{fj, fjs, guard, Report};
use crate::rng::Rng;
use crate::{Ctx, P, V};
use serde_json::{json, Value};

pub const KINDS: [&str; 15] = ["SMA", "WMA", "HMA", "RMA", "EMA", "DMA", "DEMA", "TMA", "TEMA", "WSMA", "SMM", "SWMA", "TRIMA", "LinReg", "Vidya"];
const NONNEG: [&str; 11] = ["SMA", "WMA", "SWMA", "TRIMA", "EMA", "DMA", "TMA", "RMA", "WSMA", "SMM", "Vidya"];
const LINEAR: [&str; 13] = ["SMA", "WMA", "SWMA", "TRIMA", "EMA", "DMA", "TMA", "DEMA", "TEMA", "RMA", "WSMA", "HMA", "LinReg"];

fn maxlen(kind: &str) -> u64 {
	let top = if P::MAX as u64 > 255 { 300 } else { 254 };
	if kind == "WSMA" {
		127.min(top)
	} else if matches!(kind, "EMA" | "DMA" | "TMA" | "DEMA" | "TEMA" | "RMA" | "SWMA") {
		// these accept PeriodType::MAX itself
		top.max(255)
	} else {
		top
	}
}
fn minlen(kind: &str) -> u64 {
	if kind == "HMA" || kind == "LinReg" {
		2
	} else {
		1
	}
}

fn run_v(m: &MDesc, par: &Par, xs: &[f64]) -> Option<Vec<f64>> {
	let r = guard(|| {
		let mut i = (m.ctor)(par, &In::V(xs[0] as V)).ok()?;
		Some(xs.iter().map(|x| match i.next(&In::V(*x as V)) {
			Out::V(v) => v as f64,
			_ => f64::NAN,
		}).collect::<Vec<f64>>())
	});
	r.ok().flatten()
}

/// the method's own allowance at step t for history magnitude m
fn rad(m: &MDesc, n: f64, t: f64, mag: f64) -> f64 {
	let amp = match m.name {
		"HMA" | "LinReg" | "DEMA" | "TEMA" => 8.0,
		_ => 2.0,
	};
	let class = if m.name == "Vidya" || m.name == "SMM" { Class::Contraction } else { m.class };
	amp * radius(class, n, t, mag, 8.0)
}

fn affine(m: &MDesc, n: u64, class: usize, seed: u64, r: &mut Report) {
	let par = Par::L(n as P);
	let len = (3 * n as usize + 60).min(500);
	let xs = gen::values(class, seed, len, n as usize);
	let Some(base) = run_v(m, &par, &xs) else { return };
	r.case_named(m.name, &[15, n, crate::reg::f64s_hash(&xs)]);
	let mag = xs.iter().fold(0.0f64, |a, b| a.max(b.abs()));
	if !(mag > 0.0) || mag > 1e100 || xs.iter().any(|x| x.abs() < 1e-100 && *x != 0.0) {
		return; // keep clear of under/overflow, where scaling does not commute with rounding
	}
	let case = |a: f64, b: f64, i: usize, got: f64, want: f64| json!({"kind": m.name, "len": n, "a": a, "b": b, "step": i, "MA(a*x+b)": fj(got), "a*MA(x)+b": fj(want), "stream_class": class, "seed": seed, "first_inputs": fjs(&xs[..xs.len().min(8)])});
	// exact: negation and powers of two
	for a in [-1.0, 2.0, 0.5, -4.0, 1024.0, 2f64.powi(-60), -(2f64.powi(-58)), 2f64.powi(40)] {
		// keep clear of the ValueType's under/overflow range, where scaling does not commute with rounding
		let minx = xs.iter().filter(|x| **x != 0.0).fold(f64::INFINITY, |m, x| m.min(x.abs()));
		if minx.is_finite() && (a.abs() * minx < V::MIN_POSITIVE as f64 * 1e12 || a.abs() * mag > V::MAX as f64 / 1e12 || minx < V::MIN_POSITIVE as f64 * 1e12) {
			continue;
		}
		let ys: Vec<f64> = xs.iter().map(|x| a * x).collect();
		let Some(got) = run_v(m, &par, &ys) else { continue };
		r.eval(len as u64);
		for i in 0..len {
			let want = a * base[i];
			let same = got[i] == want || (got[i].is_nan() && want.is_nan());
			if !same {
				let exact_kind = if a == -1.0 { "negation" } else { "power-of-two-scale" };
				r.violate(&format!("C15|{}|affine-not-exact|{exact_kind}", m.name), "scaling the input by -1 or a power of two must scale the output exactly", || case(a, 0.0, i, got[i], want));
				break;
			}
		}
		r.cell(&format!("affine-exact:{}", m.name));
	}
	// Vidya: accumulated effect of an ill-conditioned momentum ratio (see below); `noise` = rounding of each input
	let vidya_cond = |st: &[f64], noise_rel: f64| -> Vec<f64> {
		let nn = n as usize;
		let mut e = 0.0f64;
		let mut mg = 0.0f64;
		(0..st.len())
			.map(|i| {
				mg = mg.max(st[i].abs());
				let from = (i + 1).saturating_sub(nn);
				let mv: f64 = (from.max(1)..=i).map(|j| (st[j] - st[j - 1]).abs()).sum();
				let e_acc = radius(Class::Accum, n as f64, i as f64 + 1.0, 2.0 * mg, 4.0) * 64.0 + 4.0 * n as f64 * noise_rel * mg;
				let cond = if mv > 0.0 { (e_acc / mv).min(1.0) } else { 1.0 };
				e += 4.0 * cond * mg;
				e
			})
			.collect()
	};
	let vidya_e: Vec<f64> = if m.name == "Vidya" { vidya_cond(&xs, 0.0) } else { vec![0.0; len] };
	// general a, b within the allowance
	let mut rng = Rng::new(seed ^ 0xAFF);
	for _ in 0..3 {
		let a = gen::q(*rng.pick(&[3.0, -0.7, 1.0, 0.1, -12.5, 1.0 / 3.0]));
		let b = gen::q(mag * *rng.pick(&[0.0, 1.0, -2.5, 10.0, 0.001]));
		let ys: Vec<f64> = xs.iter().map(|x| gen::q(a * x + b)).collect();
		let Some(got) = run_v(m, &par, &ys) else { continue };
		let mag2 = ys.iter().fold(0.0f64, |m, y| m.max(y.abs())).max(mag * a.abs()).max(b.abs());
		let vidya_e2: Vec<f64> = if m.name == "Vidya" { vidya_cond(&ys, EPS) } else { vec![0.0; len] };
		r.eval(len as u64);
		for i in 0..len {
			let want = a * base[i] + b;
			// both runs carry their own rounding; the inputs a*x+b were themselves rounded once
			let mut tol = rad(m, n as f64, i as f64 + 1.0, mag2) + a.abs() * rad(m, n as f64, i as f64 + 1.0, mag) + 8.0 * EPS * mag2;
			if m.name == "Vidya" {
				// the adaptive factor is a ratio of running sums of changes: it is affine-invariant only up to the
				// conditioning of that ratio (accumulator error / total movement in the window), in either run
				tol += vidya_e[i] * a.abs() + vidya_e2[i];
			}
			if !((got[i] - want).abs() <= tol) && !(got[i].is_nan() && want.is_nan()) {
				// regime: did the window hold `n` equal inputs (no movement) at or shortly before this step?
				let nn = n as usize;
				let flat = (i.saturating_sub(2 * nn + 2)..=i).any(|j| j >= nn && xs[j - nn..=j].windows(2).all(|w| w[0] == w[1]));
				let regime = if flat { "flat-window" } else { "moving-window" };
				r.violate(&format!("C15|{}|affine-outside-allowance|{regime}", m.name), "MA(a*x+b) differs from a*MA(x)+b beyond rounding", || json!({"case": case(a, b, i, got[i], want), "tolerance": fj(tol)}));
				break;
			}
		}
		r.cell(&format!("affine-general:{}", m.name));
	}
}

pub fn constant(m: &MDesc, n: u64, r: &mut Report) {
	let par = Par::L(n as P);
	for v in [1.0, 0.1, -3.7, 1.0 / 3.0, 12345.678, 1e-3, 1e6, 0.0, -0.0] {
		let v = gen::q(v);
		let xs = vec![v; 3 * n as usize + 10];
		let Some(out) = run_v(m, &par, &xs) else { continue };
		r.case_named(m.name, &[151, n, v.to_bits()]);
		r.eval(xs.len() as u64);
		for (i, o) in out.iter().enumerate() {
			// "reproduced" up to the method's own allowance (e.g. RMA's fixed point is x(1 +- n eps/2) because
			// alpha and 1 - alpha are rounded separately)
			if !((o - v).abs() <= rad(m, n as f64, i as f64 + 1.0, v.abs())) {
				r.violate(&format!("C15|{}|constant-not-reproduced", m.name), "a constant input is not reproduced", || json!({"kind": m.name, "len": n, "constant": v, "step": i, "output": fj(*o)}));
				break;
			}

		}
	}
	r.cell(&format!("constant:{}", m.name));
}

fn containment(m: &MDesc, n: u64, class: usize, seed: u64, r: &mut Report) {
	let par = Par::L(n as P);
	let len = (4 * n as usize + 100).min(700);
	let xs = gen::values(class, seed, len, n as usize);
	let Some(out) = run_v(m, &par, &xs) else { return };
	r.case_named(m.name, &[152, n, crate::reg::f64s_hash(&xs)]);
	let horizon: Option<usize> = match m.name {
		"SMA" | "WMA" | "SWMA" | "SMM" => Some(n as usize),
		"TRIMA" => Some(2 * n as usize - 1),
		_ => None, // whole history
	};
	let mut mag = 0.0f64;
	r.eval(len as u64);
	for i in 0..len {
		mag = mag.max(xs[i].abs());
		let from = horizon.map_or(0, |h| (i + 1).saturating_sub(h));
		let mut lo = xs[from..=i].iter().cloned().fold(f64::INFINITY, f64::min);
		let mut hi = xs[from..=i].iter().cloned().fold(f64::NEG_INFINITY, f64::max);
		if horizon.map_or(true, |h| i + 1 < h) {
			// the construction value (= xs[0]) is still part of the horizon
			lo = lo.min(xs[0]);
			hi = hi.max(xs[0]);
		}
		let tol = rad(m, n as f64, i as f64 + 1.0, mag);
		if !(out[i] >= lo - tol && out[i] <= hi + tol) {
			let from_show = i.saturating_sub(12);
			r.violate(&format!("C15|{}|leaves-range-of-inputs", m.name), "a non-negative-weight average left the interval spanned by the values it was given", || {
				json!({"kind": m.name, "len": n, "step": i, "output": fj(out[i]), "min": fj(lo), "max": fj(hi), "tolerance": fj(tol), "stream_class": class, "seed": seed, "recent_inputs": fjs(&xs[from_show..=i])})
			});
			break;
		}
	}
	r.cell(&format!("containment:{}:{}", m.name, gen::VALUE_CLASSES[class]));
}

fn superposition(m: &MDesc, n: u64, class: usize, seed: u64, r: &mut Report) {
	let par = Par::L(n as P);
	let len = (3 * n as usize + 60).min(500);
	// grid streams: x + z is exact
	let xs = gen::values(6, seed, len, n as usize);
	let zs = gen::values(if class % 2 == 0 { 6 } else { 5 }, seed ^ 0x55, len, n as usize);
	let sum: Vec<f64> = xs.iter().zip(zs.iter()).map(|(a, b)| a + b).collect();
	r.case_named(m.name, &[153, n, crate::reg::f64s_hash(&xs), crate::reg::f64s_hash(&zs)]);
	let (Some(a), Some(b), Some(c)) = (run_v(m, &par, &xs), run_v(m, &par, &zs), run_v(m, &par, &sum)) else { return };
	let mag = xs.iter().chain(zs.iter()).chain(sum.iter()).fold(0.0f64, |m, x| m.max(x.abs()));
	r.eval(len as u64);
	for i in 0..len {
		let tol = 3.0 * rad(m, n as f64, i as f64 + 1.0, mag);
		if !((c[i] - (a[i] + b[i])).abs() <= tol) {
			r.violate(&format!("C15|{}|superposition", m.name), "MA(x+z) differs from MA(x)+MA(z) beyond rounding", || json!({"kind": m.name, "len": n, "step": i, "MA(x+z)": fj(c[i]), "MA(x)+MA(z)": fj(a[i] + b[i]), "tolerance": fj(tol), "seed": seed}));
			break;
		}
	}
	r.cell(&format!("superposition:{}", m.name));
}

/// expected impulse response h[i], i = steps since the impulse (documented weight profiles)
fn impulse_profile(kind: &str, n: usize, len: usize) -> Vec<f64> {
	let norm = |w: Vec<f64>| {
		let s: f64 = w.iter().sum();
		w.into_iter().map(|x| x / s).collect::<Vec<f64>>()
	};
	let pad = |mut w: Vec<f64>| {
		w.resize(len, 0.0);
		w
	};
	let geo = |a: f64, stages: usize| -> Vec<f64> {
		// impulse response of `stages` cascaded EMAs with smoothing a
		(0..len)
			.map(|i| {
				let i = i as f64;
				let comb = match stages {
					1 => 1.0,
					2 => i + 1.0,
					_ => (i + 1.0) * (i + 2.0) / 2.0,
				};
				comb * a.powi(stages as i32) * (1.0 - a).powf(i)
			})
			.collect()
	};
	let conv = |a: &[f64], b: &[f64]| -> Vec<f64> {
		let mut o = vec![0.0; len];
		for (i, x) in a.iter().enumerate() {
			for (j, y) in b.iter().enumerate() {
				if i + j < len {
					o[i + j] += x * y;
				}
			}
		}
		o
	};
	let a = 2.0 / (n as f64 + 1.0);
	match kind {
		"SMA" => pad(norm(vec![1.0; n])),
		"WMA" => pad(norm(wma_weights(n))),
		"SWMA" => pad(norm(swma_weights(n))),
		"LinReg" => pad(linreg_weights(n)),
		"TRIMA" => {
			let s = norm(vec![1.0; n]);
			conv(&s, &s)
		}
		"EMA" => geo(a, 1),
		"DMA" => geo(a, 2),
		"TMA" => geo(a, 3),
		"DEMA" => geo(a, 1).iter().zip(geo(a, 2).iter()).map(|(e, ee)| 2.0 * e - ee).collect(),
		"TEMA" => {
			let (g1, g2, g3) = (geo(a, 1), geo(a, 2), geo(a, 3));
			(0..len).map(|i| 3.0 * g1[i] - 3.0 * g2[i] + g3[i]).collect()
		}
		"RMA" | "WSMA" => geo(1.0 / n as f64, 1),
		"HMA" => {
			let w1 = pad(norm(wma_weights(n / 2)));
			let w2 = pad(norm(wma_weights(n)));
			let d: Vec<f64> = w1.iter().zip(w2.iter()).map(|(a, b)| 2.0 * a - b).collect();
			let s = (n as f64).sqrt() as usize;
			conv(&norm(wma_weights(s)), &d)
		}
		_ => vec![],
	}
}

pub fn impulse(m: &MDesc, n: u64, r: &mut Report) {
	let par = Par::L(n as P);
	let len = 3 * n as usize + 20;
	let lead = 3usize;
	let mut xs = vec![0.0; lead + len];
	xs[lead] = 1.0;
	let Some(out) = run_v(m, &par, &xs) else { return };
	r.case_named(m.name, &[154, n]);
	let prof = impulse_profile(m.name, n as usize, len);
	if prof.is_empty() {
		return;
	}
	r.eval(len as u64);
	for i in 0..len {
		let tol = 16.0 * C * EPS * (n as f64 + i as f64 + 4.0);
		let got = out[lead + i];
		if !((got - prof[i]).abs() <= tol) {
			r.violate(&format!("C15|{}|impulse-response", m.name), "the response to a unit impulse is not the documented weight profile", || json!({"kind": m.name, "len": n, "steps_after_impulse": i, "got": fj(got), "expected_weight": fj(prof[i]), "tolerance": fj(tol)}));
			break;
		}
	}
	r.cell(&format!("impulse:{}", m.name));
	r.count("impulse_lengths_checked", 1);
}

fn conv_and_vwma(ctx: &Ctx, r: &mut Report) {
	let conv = reg::method("Conv");
	let vwma = reg::method("VWMA");
	let mut rng = Rng::new(ctx.seed ^ 0xC0);
	for k in 0..ctx.pick(120u64, 1500) {
		if !ctx.mine(k) {
			continue;
		}
		// Conv: impulse response = w / sum(w), last weight on the newest value; containment for w >= 0
		let m = 1 + rng.below(if k % 5 == 0 { 253 } else { 20 }) as usize;
		let nonneg = k % 2 == 0;
		let w: Vec<f64> = (0..m).map(|i| if nonneg { rng.below(5) as f64 + if i == 0 { 1.0 } else { 0.0 } } else { rng.range(-3, 6) as f64 + 0.5 }).collect();
		let sum: f64 = w.iter().sum();
		if sum.abs() < 0.5 {
			continue;
		}
		let par = Par::W(w.iter().map(|x| *x as V).collect());
		r.case_named("Conv", &[155, crate::reg::f64s_hash(&w)]);
		let mut xs = vec![0.0; m + 8];
		xs[2] = 1.0;
		if let Some(out) = run_v(&conv, &par, &xs) {
			r.eval(xs.len() as u64);
			for i in 0..m {
				let want = w[m - 1 - i] / sum;
				if !((out[2 + i] - want).abs() <= 16.0 * C * EPS * (m as f64 + 4.0) * (w.iter().map(|x| x.abs()).sum::<f64>() / sum.abs())) {
					r.violate("C15|Conv|impulse-response", "Conv's impulse response is not w/sum(w) with the last weight on the newest value", || json!({"weights": w, "steps_after_impulse": i, "got": fj(out[2 + i]), "expected": fj(want)}));
					break;
				}
			}
			r.cell("impulse:Conv");
		}
		let xs = gen::values((k % 8) as usize, ctx.seed ^ k, 3 * m + 40, m);
		if let Some(out) = run_v(&conv, &par, &xs) {
			r.eval(xs.len() as u64);
			// affine exactness
			let ys: Vec<f64> = xs.iter().map(|x| -4.0 * x).collect();
			if let Some(o2) = run_v(&conv, &par, &ys) {
				if let Some(i) = (0..xs.len()).find(|&i| o2[i] != -4.0 * out[i] && !(o2[i].is_nan() && out[i].is_nan())) {
					r.violate("C15|Conv|affine-not-exact|power-of-two-scale", "scaling the input by -4 must scale Conv's output exactly", || json!({"weights": w, "step": i}));
				}
			}
			if nonneg {
				let mut mag = 0.0f64;
				for i in 0..xs.len() {
					mag = mag.max(xs[i].abs());
					let from = (i + 1).saturating_sub(m);
					let mut lo = xs[from..=i].iter().cloned().fold(f64::INFINITY, f64::min);
					let mut hi = xs[from..=i].iter().cloned().fold(f64::NEG_INFINITY, f64::max);
					if i + 1 < m {
						lo = lo.min(xs[0]);
						hi = hi.max(xs[0]);
					}
					let tol = 4.0 * C * EPS * mag * (m as f64 + 4.0);
					if !(out[i] >= lo - tol && out[i] <= hi + tol) {
						r.violate("C15|Conv|leaves-range-of-inputs", "Conv with non-negative weights left the range of its window", || json!({"weights": w, "step": i, "output": fj(out[i]), "min": fj(lo), "max": fj(hi)}));
						break;
					}
				}
				r.cell("containment:Conv");
			}
		}
		// VWMA: scale invariance in price and in volume (powers of two: exact), containment for volumes >= 0
		let n = 1 + rng.below(if k % 5 == 0 { 253 } else { 30 });
		let st = crate::work::stream_for(&vwma, (k % 8) as usize, ctx.seed ^ k << 4, 3 * n as usize + 60, n as usize);
		let run = |s: &[In]| -> Option<Vec<f64>> {
			guard(|| {
				let mut i = (vwma.ctor)(&Par::L(n as P), &s[0]).ok()?;
				Some(s.iter().map(|x| i.next(x).as_f().unwrap_or(f64::NAN)).collect::<Vec<_>>())
			})
			.ok()
			.flatten()
		};
		if let Some(base) = run(&st) {
			r.case_named("VWMA", &[156, n, crate::reg::ins_hash(&st)]);
			r.eval(st.len() as u64);
			let scaled: Vec<In> = st.iter().map(|x| if let In::P(p, v) = x { In::P((*p as f64 * -8.0) as V, (*v as f64 * 4.0) as V) } else { x.clone() }).collect();
			if let Some(o2) = run(&scaled) {
				if let Some(i) = (0..st.len()).find(|&i| o2[i] != -8.0 * base[i] && !(o2[i].is_nan() && base[i].is_nan())) {
					r.violate("C15|VWMA|affine-not-exact|power-of-two-scale", "scaling prices by -8 and volumes by 4 must scale VWMA exactly by -8", || json!({"len": n, "step": i, "got": fj(o2[i]), "want": fj(-8.0 * base[i])}));
				}
			}
			let mut pm = 0.0f64;
			for i in 0..st.len() {
				let from = (i + 1).saturating_sub(n as usize);
				let ps: Vec<f64> = st[from..=i].iter().chain(if i + 1 < n as usize { st[..1].iter() } else { st[..0].iter() }).map(|x| if let In::P(p, _) = x { *p as f64 } else { 0.0 }).collect();
				let vs: f64 = st[from..=i].iter().map(|x| if let In::P(_, v) = x { *v as f64 } else { 0.0 }).sum::<f64>() + if i + 1 < n as usize { if let In::P(_, v) = &st[0] { *v as f64 } else { 0.0 } } else { 0.0 };
				pm = ps.iter().fold(pm, |a, b| a.max(b.abs()));
				if !(vs > 0.0) || !base[i].is_finite() {
					continue; // total volume zero: the formula is undefined
				}
				let lo = ps.iter().cloned().fold(f64::INFINITY, f64::min);
				let hi = ps.iter().cloned().fold(f64::NEG_INFINITY, f64::max);
				// conditioning: the running volume sum carries an absolute error relative to the largest volume seen
				let vmax = st[..=i].iter().map(|x| if let In::P(_, v) = x { *v as f64 } else { 0.0 }).fold(0.0f64, f64::max);
				let tol = 8.0 * C * EPS * pm * (n as f64 + i as f64 + 4.0) * (n as f64 * vmax / vs).max(1.0);
				if !(base[i] >= lo - tol && base[i] <= hi + tol) {
					r.violate("C15|VWMA|leaves-range-of-inputs", "VWMA with non-negative volumes left the range of the prices in its window", || json!({"len": n, "step": i, "output": fj(base[i]), "min": fj(lo), "max": fj(hi), "tolerance": fj(tol), "seed": ctx.seed ^ k << 4}));
					break;
				}
			}
			r.cell("containment:VWMA");
		}
	}
}

pub fn run(ctx: &Ctx, r: &mut Report) {
	let mut k = 0u64;
	for kind in KINDS {
		let m = reg::method(kind);
		for n in minlen(kind)..=maxlen(kind) {
			k += 1;
			if !ctx.mine(k) {
				continue;
			}
			// (v) impulse response and (ii) constants for ALL lengths
			if LINEAR.contains(&kind) {
				impulse(&m, n, r);
			}
			constant(&m, n, r);
			// (i) exact affine scaling for all lengths, one class (rotated); the rest for a stratified set
			let strat = ctx.thorough || n <= 24 || n % 8 == 0 || n >= maxlen(kind) - 1;
			let class = ((n + ctx.seed) % 8) as usize;
			affine(&m, n, class, ctx.seed ^ k << 8, r);
			if strat {
				let ncl = ctx.pick(5, 8);
				for j in 0..ncl {
					let class = (n as usize + j * 3 + ctx.seed as usize) % 8;
					if NONNEG.contains(&kind) {
						containment(&m, n, class, ctx.seed ^ k << 8 ^ j as u64, r);
					}
					if LINEAR.contains(&kind) {
						superposition(&m, n, j, ctx.seed ^ k << 8 ^ (j as u64) << 4, r);
					}
					if j > 0 {
						affine(&m, n, class, ctx.seed ^ k << 8 ^ 0x77 ^ j as u64, r);
					}
				}
			}
		}
	}
	conv_and_vwma(ctx, r);
	if ctx.mine(0) {
		r.sample(|| json!({"kind": "WMA", "len": 5, "impulse response expected": impulse_profile("WMA", 5, 8)}));
		r.sample(|| json!({"kind": "DEMA", "len": 3, "impulse response expected": impulse_profile("DEMA", 3, 8)}));
	}
}
