//! C13 — serialized snapshots restore behaviourally identical instances; malformed windows are rejected.
use crate::gen;
use crate::icfg;
use crate::reg::{self, res_bits, In, MDesc, Out, Par, ParKind};
use crate::rep::{guard, Report};
use crate::rng::Rng;
use crate::work::{lengths, params_for, show_ins, stream_for};
use crate::{Ctx, P, V};
use crate::sv::SV;
use serde_json::{json, Value};
use yata::core::Candle;

fn has_null(v: &Value) -> bool {
	match v {
		Value::Null => true,
		Value::Array(a) => a.iter().any(has_null),
		Value::Object(m) => m.values().any(has_null),
		_ => false,
	}
}

enum Snap {
	J(Value),
	B(SV),
	/// positional flavour of the bit-exact tree
	P(SV),
}
impl Snap {
	fn json_with_null(&self) -> bool {
		matches!(self, Snap::J(v) if has_null(v))
	}
	fn nonfinite(&self) -> bool {
		matches!(self, Snap::B(v) | Snap::P(v) if v.has_nonfinite())
	}
	fn restore_m(&self, inst: &dyn reg::DM) -> Result<Box<dyn reg::DM>, String> {
		match self {
			Snap::J(v) => inst.de(v),
			Snap::B(v) | Snap::P(v) => inst.de_b(v),
		}
	}
	fn same_as_m(&self, rs: &dyn reg::DM) -> bool {
		match self {
			Snap::J(v) => rs.ser().ok().as_ref() == Some(v),
			Snap::B(v) => rs.ser_b().ok().as_ref() == Some(v),
			Snap::P(v) => rs.ser_p().ok().as_ref() == Some(v),
		}
	}
	fn restore_i(&self, inst: &dyn reg::DI) -> Result<Box<dyn reg::DI>, String> {
		match self {
			Snap::J(v) => inst.de(v),
			Snap::B(v) | Snap::P(v) => inst.de_b(v),
		}
	}
	fn same_as_i(&self, rs: &dyn reg::DI) -> bool {
		match self {
			Snap::J(v) => rs.ser().ok().as_ref() == Some(v),
			Snap::B(v) | Snap::P(v) => rs.ser_b().ok().as_ref() == Some(v),
		}
	}
}

/// candle stream for the indicator snapshots: a quarter of them contains candles without volume (NaN)
fn ind_candles(seed: u64) -> Vec<Candle> {
	let mut cs = gen::candles((seed % 5) as usize, seed, 160, 14);
	if (seed >> 8 ^ seed >> 3) % 4 == 0 {
		let mut vr = Rng::new(seed ^ 0x7b7b);
		let all = vr.chance(0.3);
		for c in cs.iter_mut() {
			if all || vr.chance(0.3) {
				c.volume = V::NAN;
			}
		}
	}
	cs
}

fn snapshot_method(m: &MDesc, len: u64, class: usize, seed: u64, all_k: bool, r: &mut Report) {
	let mut rng = Rng::new(seed ^ 0x1313);
	let par = if (m.name == "Integral" || m.name == "ADI") && len == 0 { Par::L(0) } else { params_for(m, len, &mut rng) };
	let n = par.len().max(1);
	let pre = (3 * n + 2).min(400);
	let cont = (2 * n + 50).min(400);
	let mut xs = stream_for(m, class, seed, pre + cont, n);
	// candles without volume (volume = NaN) are valid input: a third of the candle streams has some, a ninth only such
	if m.inp == reg::InKind::C {
		let mode = (seed >> 16 ^ seed) % 9;
		let mut vr = Rng::new(seed ^ 0x7a7a);
		for x in xs.iter_mut() {
			if let In::C(c) = x {
				if mode == 0 || (mode <= 2 && vr.chance(0.3)) {
					c.volume = V::NAN;
				}
			}
		}
	}
	let init = xs[0].clone();
	let ks: Vec<usize> = if all_k || n <= 10 { (0..=pre).collect() } else { let mut v = vec![0, 1, n - 1, n, n + 1, 2 * n, pre]; for _ in 0..8 { v.push(rng.below(pre as u64 + 1) as usize); } v.retain(|k| *k <= pre); v };
	let case = |k: usize, what: &str| json!({"method": m.name, "params": par.show(), "len": len, "stream_class": class, "seed": seed, "snapshot_after_steps": k, "what": what, "first_inputs": show_ins(&xs[..xs.len().min(8)])});
	let Ok(Ok(mut inst)) = guard(|| (m.ctor)(&par, &init)) else { return };
	let mut done = 0usize;
	for k in 0..=pre {
		if ks.contains(&k) {
			// two routes: JSON value (+ text), and the bit-exact tree of sv.rs (which can carry NaN / inf state)
			for route in 0..3 {
			r.eval(1);
			r.case_named(m.name, &[13, reg::json_hash(&par.show()), class as u64, seed, k as u64, route]);
			let snap = match guard(|| match route { 0 => inst.ser().map(Snap::J), 1 => inst.ser_b().map(Snap::B), _ => inst.ser_p().map(Snap::P) }) {
				Ok(Ok(v)) => v,
				Ok(Err(e)) => {
					r.violate(&format!("C13|{}|serialize-error", m.name), &e, || case(k, "serialize"));
					return;
				}
				Err(p) => {
					r.violate(&format!("C13|{}|serialize-panic:{}", m.name, p.class()), &p.msg, || case(k, "serialize"));
					return;
				}
			};
			if snap.json_with_null() {
				// NaN/inf in the state is not representable in a JSON value: left to the bit-exact route
				r.count("json_snapshots_skipped_non_finite_state", 1);
			} else {
				if snap.nonfinite() {
					r.count("bit_exact_snapshots_with_non_finite_state", 1);
				}
				let empty_window = par == Par::L(0);
				let restored = guard(|| snap.restore_m(inst.as_ref()));
				match restored {
					Ok(Ok(mut rs)) => {
						// the serialized forms agree
						if !snap.same_as_m(rs.as_ref()) {
							r.violate(&format!("C13|{}|reserialized-differs", m.name), "serialize(deserialize(s)) != s", || case(k, "reserialize"));
						}
						// through text
						let mut via_text = None;
						if let Snap::J(snap) = &snap {
							let txt = snap.to_string();
							match serde_json::from_str::<Value>(&txt) {
								Ok(v3) if v3 == *snap => {}
								_ => r.violate(&format!("C13|{}|text-roundtrip-differs", m.name), "the JSON text form does not round-trip to the same value", || case(k, "text")),
							}
							via_text = guard(|| inst.de(&serde_json::from_str::<Value>(&txt).unwrap_or(Value::Null))).ok().and_then(Result::ok);
						}
						// identical continuation
						let mut orig = inst.bclone();
						let mut bad = None;
						for (j, x) in xs[k..(k + cont).min(xs.len())].iter().enumerate() {
							let res = guard(|| (orig.next(x), rs.next(x)));
							match res {
								Ok((a, b)) => {
									if !a.same(&b) && bad.is_none() {
										bad = Some((j, a.show(), b.show()));
									}
									if let Some(t) = via_text.as_mut() {
										if let Ok(c) = guard(|| t.next(x)) {
											if !a.same(&c) && bad.is_none() {
												bad = Some((j, a.show(), c.show()));
											}
										}
									}
								}
								Err(p) => {
									// a panic of the original is C10's matter; a panic of the restored copy only is ours
									let o2 = guard(|| inst.bclone().next(x));
									if o2.is_ok() {
										r.violate(&format!("C13|{}|restored-panics:{}", m.name, p.class()), &p.msg, || case(k, "continuation"));
									}
									break;
								}
							}
						}
						let diverged = bad.is_some();
						if let Some((j, a, b)) = bad {
							// root-cause keyed: SMM rebuilds its sorted buffer on restore, so equal zeros may change places
							let zero_only = a.as_f64().map_or(false, |x| x == 0.0) && b.as_f64().map_or(false, |x| x == 0.0);
							// (a finer split - "known only if the window held zeros of both signs at the snapshot" - is wrong: the live sorted buffer
							// can keep a zero of the other sign than the window after a numeric-equality removal, so the defect also shows then)
							let sig = if zero_only && (m.name == "SMM" || m.name == "MedianAbsDev") { "C13|SMM|restored-diverges|sign-of-zero-only".to_string() } else { format!("C13|{}|restored-diverges", m.name) };
							r.violate(&sig, "a restored instance does not continue bit-identically", || json!({"case": case(k, "continuation"), "steps_after_snapshot": j, "original": a, "restored": b}));
						}
						done += 1;
						r.cell(&format!("snapshot:{}:{}", m.name, if k == 0 { "fresh" } else if k < n { "warm-up" } else { "steady" }));
						r.sample_case(211, || json!({"method": m.name, "params": par.show(), "stream_class": class, "snapshot_after_steps": k, "route": if route == 0 { "serde_json value + text" } else { "bit-exact tree (NaN-capable)" }, "state_had_non_finite_values": snap.nonfinite(), "continuation_steps_compared": cont.min(xs.len() - k), "verdict": if !diverged { "bit-identical" } else { "diverged" }}));
						if empty_window {
							r.cell("snapshot:windowless-variant");
						}
					}
					Ok(Err(e)) => {
						let kind = if empty_window { "rejects-own-windowless-form" } else { "rejects-own-form" };
						r.violate(&format!("C13|{}|{kind}", m.name), &format!("Deserialize rejects what Serialize produced: {e}"), || case(k, "deserialize"));
					}
					Err(p) => r.violate(&format!("C13|{}|deserialize-panic:{}", m.name, p.class()), &p.msg, || case(k, "deserialize")),
				}
			}
			}
		}
		if k < pre {
			if guard(|| inst.next(&xs[k])).is_err() {
				return;
			}
		}
	}
	r.count("method_snapshots_judged", done as u64);
}

fn snapshot_indicator(d: &reg::IDesc, cfg: &dyn reg::DC, cs: &[Candle], seed: u64, r: &mut Report) {
	let cfgv = cfg.ser().unwrap_or(Value::Null);
	let case = |k: usize, what: &str| json!({"indicator": d.name, "config": cfgv, "snapshot_after_steps": k, "what": what, "seed": seed});
	// configuration round trip
	r.eval(1);
	match guard(|| cfg.de(&cfgv)) {
		Ok(Ok(c2)) => {
			if c2.ser().ok().as_ref() != Some(&cfgv) {
				r.violate(&format!("C13|{}|config-roundtrip-differs", d.name), "configuration does not round-trip to an equal configuration", || case(0, "config"));
			}
			let txt = cfgv.to_string();
			let via = serde_json::from_str::<Value>(&txt).ok().and_then(|v| cfg.de(&v).ok()).and_then(|c| c.ser().ok());
			if via.as_ref() != Some(&cfgv) {
				r.violate(&format!("C13|{}|config-text-roundtrip-differs", d.name), "configuration does not round-trip through JSON text", || case(0, "config-text"));
			}
			// identical behaviour after init
			let a = guard(|| cfg.init(&cs[0]).ok().map(|mut i| cs.iter().take(60).map(|c| res_bits(&i.next(c))).collect::<Vec<_>>()));
			let b = guard(|| c2.init(&cs[0]).ok().map(|mut i| cs.iter().take(60).map(|c| res_bits(&i.next(c))).collect::<Vec<_>>()));
			if let (Ok(a), Ok(b)) = (a, b) {
				if a != b {
					r.violate(&format!("C13|{}|config-roundtrip-behaviour", d.name), "a round-tripped configuration behaves differently", || case(0, "config-behaviour"));
				}
			}
			r.cell("config-roundtrip");
		}
		Ok(Err(e)) => r.violate(&format!("C13|{}|config-rejects-own-form", d.name), &e, || case(0, "config")),
		Err(p) => r.violate(&format!("C13|{}|config-deserialize-panic:{}", d.name, p.class()), &p.msg, || case(0, "config")),
	}
	let Ok(Ok(mut inst)) = guard(|| cfg.init(&cs[0])) else { return };
	let pre = cs.len() / 2;
	let ks = [0usize, 1, 2, 7, pre / 2, pre - 1, pre];
	for k in 0..=pre {
		if ks.contains(&k) {
			for route in 0..2 {
			r.eval(1);
			r.case_named(d.name, &[131, reg::json_hash(&cfgv), reg::candles_hash(cs), k as u64, route]);
			match guard(|| if route == 0 { inst.ser().map(Snap::J) } else { inst.ser_b().map(Snap::B) }) {
				Ok(Ok(snap)) => {
					if snap.json_with_null() {
						r.count("json_snapshots_skipped_non_finite_state", 1);
					} else {
						if snap.nonfinite() {
							r.count("bit_exact_snapshots_with_non_finite_state", 1);
						}
						match guard(|| snap.restore_i(inst.as_ref())) {
							Ok(Ok(mut rs)) => {
								if !snap.same_as_i(rs.as_ref()) {
									r.violate(&format!("C13|{}|reserialized-differs", d.name), "serialize(deserialize(s)) != s", || case(k, "reserialize"));
								}
								let mut orig = inst.bclone();
								for (j, c) in cs[k..].iter().enumerate() {
									match guard(|| (res_bits(&orig.next(c)), res_bits(&rs.next(c)))) {
										Ok((a, b)) => {
											if a != b {
												// -0.0 -> +0.0 and Sell(0) -> Buy(0) (what a signal computed from the sign of such a zero turns into)
												let z = |v: &Vec<u64>| v.iter().map(|x| if *x == 0x8000_0000_0000_0000 || *x == 0x8000_0000 { 0 } else if *x == 0x200 { 0x100 } else { *x }).collect::<Vec<u64>>();
												let sig = if z(&a) == z(&b) && cfgv.to_string().contains("smm") { "C13|SMM|restored-diverges|sign-of-zero-only".to_string() } else { format!("C13|{}|restored-diverges", d.name) };
												r.violate(&sig, "a restored indicator instance does not continue bit-identically", || json!({"case": case(k, "continuation"), "steps_after_snapshot": j, "original_bits": a.iter().map(|x| format!("{x:#x}")).collect::<Vec<_>>(), "restored_bits": b.iter().map(|x| format!("{x:#x}")).collect::<Vec<_>>()}));
												break;
											}
										}
										Err(_) => break,
									}
								}
								r.cell(&format!("snapshot:{}", d.name));
							}
							Ok(Err(e)) => r.violate(&format!("C13|{}|rejects-own-form", d.name), &format!("Deserialize rejects what Serialize produced: {e}"), || case(k, "deserialize")),
							Err(p) => r.violate(&format!("C13|{}|deserialize-panic:{}", d.name, p.class()), &p.msg, || case(k, "deserialize")),
						}
					}
				}
				Ok(Err(e)) => r.violate(&format!("C13|{}|serialize-error", d.name), &e, || case(k, "serialize")),
				Err(p) => r.violate(&format!("C13|{}|serialize-panic:{}", d.name, p.class()), &p.msg, || case(k, "serialize")),
			}
			}
		}
		if k < pre && guard(|| inst.next(&cs[k])).is_err() {
			return;
		}
	}
}

/// paths to every embedded window-looking object
fn window_paths(v: &Value, path: &mut Vec<String>, out: &mut Vec<Vec<String>>) {
	if let Value::Object(m) = v {
		if m.len() == 2 && m.get("buf").map_or(false, Value::is_array) && m.get("index").map_or(false, Value::is_u64) {
			out.push(path.clone());
		}
		for (k, x) in m {
			path.push(k.clone());
			window_paths(x, path, out);
			path.pop();
		}
	} else if let Value::Array(a) = v {
		for (i, x) in a.iter().enumerate() {
			path.push(i.to_string());
			window_paths(x, path, out);
			path.pop();
		}
	}
}
fn at_mut<'a>(v: &'a mut Value, path: &[String]) -> Option<&'a mut Value> {
	let mut cur = v;
	for p in path {
		cur = match cur {
			Value::Object(m) => m.get_mut(p)?,
			Value::Array(a) => a.get_mut(p.parse::<usize>().ok()?)?,
			_ => return None,
		};
	}
	Some(cur)
}

/// mutated window forms: (name, malformed?, mutation)
fn mutate_window(w: &Value, which: usize) -> Option<(String, bool, Value)> {
	let buf = w["buf"].as_array()?.clone();
	let len = buf.len() as u64;
	let max = P::MAX as u64;
	let fill = buf.first().cloned().unwrap_or(json!(1.0));
	let mk = |b: Vec<Value>, i: Value| json!({"buf": b, "index": i});
	let grown = |n: u64| -> Vec<Value> { (0..n).map(|_| fill.clone()).collect() };
	Some(match which {
		0 => ("index=len".into(), len > 0, mk(buf, json!(len))),
		1 => ("index=len+1".into(), true, mk(buf, json!(len + 1))),
		2 => ("index=MAX".into(), len <= max, mk(buf, json!(max))),
		3 => ("index>MAX".into(), true, mk(buf, json!(max as u128 + 1))),
		4 => ("buf=MAX-elements".into(), true, mk(grown(max.min(70000)), json!(0))),
		5 => ("buf=MAX+1-elements".into(), true, mk(grown(max.saturating_add(1).min(70001)), json!(0))),
		6 => ("buf=1000-elements".into(), max < 1001, mk(grown(1000), json!(0))),
		7 => ("empty-buf-index-1".into(), true, mk(vec![], json!(1))),
		8 => ("index-negative".into(), true, mk(buf, json!(-1))),
		9 => ("index-string".into(), true, mk(buf, json!("0"))),
		10 => ("buf-string".into(), true, json!({"buf": "x", "index": 0})),
		11 => ("missing-index".into(), true, json!({"buf": buf})),
		12 => ("missing-buf".into(), true, json!({"index": 0})),
		13 => ("buf=MAX-1-elements".into(), false, mk(grown((max - 1).min(70000)), json!(0))),
		14 => ("empty-buf-index-0".into(), false, mk(vec![], json!(0))),
		15 => ("index=len-1".into(), false, mk(buf, json!(len.saturating_sub(1)))),
		_ => return None,
	})
}

fn adversarial_in(name: &str, snap: &Value, de: &dyn Fn(&Value) -> Result<(), String>, r: &mut Report) {
	let mut paths = Vec::new();
	window_paths(snap, &mut Vec::new(), &mut paths);
	for path in paths {
		for which in 0..16 {
			let mut v = snap.clone();
			let Some(slot) = at_mut(&mut v, &path) else { continue };
			let Some((mname, malformed, nw)) = mutate_window(slot, which) else { continue };
			if mname.starts_with("buf=") && P::MAX as u64 > 70000 {
				continue; // huge buffers are pointless for the widest period types
			}
			*slot = nw;
			r.eval(1);
			r.case_named(name, &[132, reg::json_hash(&v)]);
			let res = guard(|| de(&v));
			match res {
				Err(p) => r.violate(&format!("C13|{name}|malformed-window-panics|{mname}|{}", p.class()), &format!("deserializing an instance with window {mname} panicked: {}", p.msg), || json!({"site": name, "window_path": path, "mutation": mname})),
				Ok(Ok(())) => {
					if malformed {
						r.violate(&format!("C13|{name}|malformed-window-accepted|{mname}"), "an instance with a malformed window was accepted", || json!({"site": name, "window_path": path, "mutation": mname}));
					} else {
						r.cell("adversarial:wellformed-variant-accepted");
					}
				}
				Ok(Err(_)) => {
					r.cell(&format!("adversarial:rejected:{mname}"));
				}
			}
		}
		r.cell(&format!("adversarial-site:{name}"));
	}
}

/// plain data types with derived Serialize/Deserialize: Action, Candle (incl. candles without volume), Source, IndicatorResult
fn plain_roundtrips(ctx: &Ctx, r: &mut Report) {
	use yata::core::{Action, IndicatorResult, Source};
	fn both<T: serde::Serialize + serde::de::DeserializeOwned>(t: &T, json_ok: bool) -> Result<(), String> {
		let b = crate::sv::to_sv(t)?;
		let t2: T = crate::sv::from_sv(&b)?;
		if crate::sv::to_sv(&t2)? != b {
			return Err("bit-exact route: serialize(deserialize(s)) != s".into());
		}
		if json_ok {
			let j = serde_json::to_value(t).map_err(|e| e.to_string())?;
			let txt = j.to_string();
			let t3: T = serde_json::from_str(&txt).map_err(|e| e.to_string())?;
			if crate::sv::to_sv(&t3)? != b {
				return Err("JSON text route: the restored value is not bit-identical".into());
			}
		}
		Ok(())
	}
	let mut acts = vec![Action::None];
	for v in 0..=255u8 {
		acts.push(Action::Buy(v));
		acts.push(Action::Sell(v));
	}
	for a in &acts {
		r.eval(1);
		match guard(|| both(a, true)) {
			Ok(Ok(())) => {}
			Ok(Err(e)) => r.violate("C13|Action|roundtrip-differs", &e, || json!({"action": format!("{a:?}")})),
			Err(p) => r.violate(&format!("C13|Action|roundtrip-panic:{}", p.class()), &p.msg, || json!({"action": format!("{a:?}")})),
		}
	}
	r.cell("plain:Action");
	for s in [Source::Open, Source::High, Source::Low, Source::Close, Source::Volume, Source::TP, Source::HL2, Source::VolumedPrice] {
		r.eval(1);
		if !matches!(guard(|| both(&s, true)), Ok(Ok(()))) {
			r.violate("C13|Source|roundtrip-differs", "a Source does not round-trip", || json!({"source": format!("{s:?}")}));
		}
	}
	r.cell("plain:Source");
	let mut rng = Rng::new(ctx.seed ^ 0xCA4D);
	for k in 0..ctx.pick(40u64, 200) {
		let mut cs = gen::candles((k % 8) as usize, ctx.seed ^ k, 40, 5);
		for c in cs.iter_mut() {
			if rng.chance(0.3) {
				c.volume = V::NAN;
			}
		}
		for c in &cs {
			r.eval(1);
			let json_ok = c.volume.is_finite();
			match guard(|| both(c, json_ok)) {
				Ok(Ok(())) => {}
				Ok(Err(e)) => r.violate("C13|Candle|roundtrip-differs", &e, || json!({"candle": format!("{c:?}")})),
				Err(p) => r.violate(&format!("C13|Candle|roundtrip-panic:{}", p.class()), &p.msg, || json!({"candle": format!("{c:?}")})),
			}
			r.cell(if json_ok { "plain:Candle:with-volume" } else { "plain:Candle:no-volume(NaN)" });
			let n = 1 + rng.below(4) as usize;
			let vals: Vec<V> = (0..n).map(|i| if rng.chance(0.1) { V::NAN } else { c.close * (i as V + 0.5) }).collect();
			let sigs: Vec<Action> = (0..rng.below(5) as usize).map(|_| acts[rng.below(acts.len() as u64) as usize]).collect();
			let res = IndicatorResult::new(&vals, &sigs);
			r.eval(1);
			let finite = vals.iter().all(|v| v.is_finite());
			if !matches!(guard(|| both(&res, finite)), Ok(Ok(()))) {
				r.violate("C13|IndicatorResult|roundtrip-differs", "an IndicatorResult does not round-trip", || json!({"values": format!("{vals:?}"), "signals": format!("{sigs:?}")}));
			}
		}
	}
	r.cell("plain:IndicatorResult");
}

pub fn run(ctx: &Ctx, r: &mut Report) {
	if let Some(rp) = &ctx.replay {
		let c = if rp["case"].get("case").is_some() { &rp["case"]["case"] } else { &rp["case"] };
		if let Some(mn) = c.get("method").and_then(Value::as_str) {
			snapshot_method(&reg::method(mn), c["len"].as_u64().unwrap_or(1), c["stream_class"].as_u64().unwrap_or(0) as usize, c["seed"].as_u64().unwrap_or(0), true, r);
		} else if let Some(iname) = c.get("indicator").and_then(Value::as_str) {
			let d = reg::indicator(iname);
			if let Ok(cfg) = (d.default)().de(&c["config"]) {
				let seed = c["seed"].as_u64().unwrap_or(0);
				let cs = ind_candles(seed);
				snapshot_indicator(&d, cfg.as_ref(), &cs, seed, r);
			}
		}
		return;
	}
	let ms = reg::methods();
	let nlen = ctx.pick(40, 254);
	let mut k = 0u64;
	for m in &ms {
		if m.name == "Renko" || m.name == "CollapseTimeframe" {
			// still serializable: included
		}
		let mut ls = lengths(m, nlen, ctx.seed);
		if m.cumulative_when_zero && m.par == ParKind::L {
			ls.push(0); // windowless variants
		}
		for len in ls {
			k += 1;
			if !ctx.mine(k) {
				continue;
			}
			let class = ((k + ctx.seed) % 8) as usize;
			snapshot_method(m, len, class, ctx.seed ^ k << 16, ctx.thorough && len <= 40, r);
		}
		// adversarial windows inside this method's state
		k += 1;
		if ctx.mine(k) {
			let mut rng = Rng::new(ctx.seed ^ k);
			let par = params_for(m, 5, &mut rng);
			let xs = stream_for(m, 0, ctx.seed, 9, 5);
			if let Ok(Ok(mut inst)) = guard(|| (m.ctor)(&par, &xs[0])) {
				for x in &xs[..7] {
					let _ = guard(|| inst.next(x));
				}
				if let Ok(Ok(snap)) = guard(|| inst.ser()) {
					let de = |v: &Value| inst.de(v).map(|_| ());
					adversarial_in(m.name, &snap, &de, r);
				}
			}
		}
	}
	for d in reg::indicators() {
		let cfgs = icfg::configs(&d, ctx.pick(20, 60), ctx.seed);
		for (ci, cfg) in cfgs.iter().enumerate() {
			k += 1;
			if !ctx.mine(k) {
				continue;
			}
			let seed = ctx.seed ^ k << 8;
			let cs = ind_candles(seed);
			snapshot_indicator(&d, cfg.as_ref(), &cs, seed, r);
			if ci == 0 {
				// adversarial windows inside the default instance
				if let Ok(Ok(mut inst)) = guard(|| cfg.init(&cs[0])) {
					for c in &cs[..5] {
						let _ = guard(|| inst.next(c));
					}
					if let Ok(Ok(snap)) = guard(|| inst.ser()) {
						let de = |v: &Value| inst.de(v).map(|_| ());
						adversarial_in(d.name, &snap, &de, r);
					}
				}
			}
		}
	}
	if ctx.mine(0) {
		plain_roundtrips(ctx, r);
		r.sample(|| json!({"method": "SMM", "len": 5, "snapshot points": "after 0..=17 steps", "check": "restored = from_value(to_value(x)); 60-step continuation bit-identical; to_value(restored) == to_value(x); JSON text round trip"}));
		r.sample(|| json!({"adversarial": "every embedded {buf,index} object of every method/indicator state mutated 16 ways (index=len, len+1, MAX; buf of MAX/MAX+1/1000 elements; wrong types; missing fields)", "oracle": "malformed => Err, never a panic"}));
	}
}
