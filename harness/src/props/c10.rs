//! C10 — invalid parameters are rejected with an error; accepted instances never panic.
use crate::gen;
use crate::icfg::{field_kind, FieldKind, MA_KEYS, SOURCE_NAMES};
use crate::reg::{self, In, InKind, MDesc, Par, ParKind, DC};
use crate::rep::{guard, Panic, Report};
use crate::rng::Rng;
use crate::work::stream_for;
use crate::{Ctx, P, V};
use serde_json::{json, Map, Value};
use std::str::FromStr;
use yata::core::{Candle, MovingAverageConstructor, Source};
use yata::helpers::MA;

const PROFILE: &str = if cfg!(debug_assertions) { "checked" } else { "release" };
const MAXP: u64 = P::MAX as u64;

fn pclass(p: u64) -> String {
	if p == 0 {
		"0".into()
	} else if p == 1 {
		"1".into()
	} else if p == MAXP {
		"MAX".into()
	} else if p == MAXP - 1 {
		"MAX-1".into()
	} else if p > MAXP / 2 {
		">MAX/2".into()
	} else {
		"mid".into()
	}
}

fn hostile_inputs(m: &MDesc, n: usize, seed: u64) -> Vec<Vec<In>> {
	// valid finite inputs only
	[2usize, 5, 7, 3].iter().map(|c| stream_for(m, *c, seed ^ *c as u64, 400.min(3 * n + 120), n.max(1))).collect()
}

/// outcome of constructing and then driving an instance
fn drive(m: &MDesc, par: &Par, pdesc: &str, documented_invalid: bool, seed: u64, r: &mut Report) {
	r.eval(1);
	r.case_named(m.name, &[10, reg::json_hash(&par.show()), seed]);
	let n = par.len();
	let streams = hostile_inputs(m, n.min(300), seed);
	let init = streams[0][0].clone();
	let case = |what: &str| json!({"site": m.name, "params": par.show(), "what": what, "profile": PROFILE});
	let made = guard(|| (m.ctor)(par, &init));
	match made {
		Err(p) => {
			r.violate(&format!("C10|{}::new|panic:{}|{pdesc}|profile={PROFILE}", m.name, p.class()), &format!("constructor panicked: {} ({})", p.msg, p.loc), || case("constructor"));
		}
		Ok(Err(_)) => {
			r.cell(&format!("ctor-err:{}", m.name));
		}
		Ok(Ok(_)) => {
			if documented_invalid {
				r.violate(&format!("C10|{}::new|accepts-documented-invalid|{pdesc}|profile={PROFILE}", m.name), "constructor accepted a length it documents as too small", || case("constructor"));
			}
			r.cell(&format!("ctor-ok:{}", m.name));
			for (si, st) in streams.iter().enumerate() {
				let res = guard(|| {
					let mut inst = (m.ctor)(par, &st[0]).ok()?;
					for x in st {
						inst.next(x);
					}
					if m.peek {
						inst.peek();
					}
					Some(())
				});
				r.eval(st.len() as u64);
				if let Err(p) = res {
					r.violate(&format!("C10|{}::next|panic:{}|{pdesc}|profile={PROFILE}", m.name, p.class()), &format!("an accepted instance panicked on a valid finite stream: {} ({})", p.msg, p.loc), || json!({"case": case("stream"), "stream_class": si}));
					break;
				}
			}
		}
	}
}

fn methods(ctx: &Ctx, r: &mut Report) {
	let mut k = 0u64;
	for m in reg::methods() {
		match m.par {
			ParKind::L => {
				for len in 0..=MAXP.min(70000) {
					if MAXP > 255 && len > 300 && len < MAXP - 2 && len % 4099 != 0 {
						continue;
					}
					k += 1;
					if !ctx.mine(k) {
						continue;
					}
					let documented_invalid = len < m.min_len;
					drive(&m, &Par::L(len as P), &format!("length={}", pclass(len)), documented_invalid, ctx.seed ^ k, r);
				}
			}
			ParKind::LL => {
				// all pairs (u8) / boundary pairs (wider types)
				let vals: Vec<u64> = if MAXP == 255 { (0..=255).collect() } else { vec![0, 1, 2, 3, 127, 128, 254, 255, 256, 1000, MAXP - 1, MAXP] };
				for &a in &vals {
					for &b in &vals {
						k += 1;
						if !ctx.mine(k) {
							continue;
						}
						// thin out the interior of the pair grid in quick
						let boundary = |x: u64| x <= 3 || x >= MAXP - 3 || x == 127 || x == 128;
						if !ctx.thorough && !(boundary(a) || boundary(b)) && (a * 31 + b * 17 + ctx.seed) % 23 != 0 {
							continue;
						}
						let documented_invalid = a == 0 || b == 0;
						drive(&m, &Par::LL(a as P, b as P), &format!("pair=({},{})", pclass(a), pclass(b)), documented_invalid, ctx.seed ^ k, r);
					}
				}
			}
			ParKind::W => {
				for wl in 0..=300usize {
					k += 1;
					if !ctx.mine(k) {
						continue;
					}
					let mut rng = Rng::new(ctx.seed ^ k);
					let w: Vec<V> = (0..wl).map(|_| (1.0 + rng.below(4) as f64) as V).collect();
					let cls = if wl == 0 { "0".to_string() } else if wl as u64 == MAXP { "MAX".into() } else if wl as u64 == MAXP - 1 { "MAX-1".into() } else if wl as u64 > MAXP { ">MAX".into() } else { "mid".into() };
					drive(&m, &Par::W(w), &format!("weights={cls}"), wl == 0, ctx.seed ^ k, r);
				}
				// special weight values
				for (name, w) in [("all-zero", vec![0.0 as V; 4]), ("sum-zero", vec![1.0, -1.0]), ("nan", vec![V::NAN, 1.0]), ("inf", vec![V::INFINITY, 1.0]), ("negative", vec![-1.0, -2.0])] {
					k += 1;
					if ctx.mine(k) {
						drive(&m, &Par::W(w), &format!("weights={name}"), false, ctx.seed ^ k, r);
					}
				}
			}
			ParKind::Renko => {
				let sizes: [f64; 14] = [f64::NAN, f64::INFINITY, -1.0, -0.0, 0.0, 5e-324, V::EPSILON as f64 / 2.0, V::EPSILON as f64, 1e-6, 0.01, 0.5, 0.999, 1.0, 2.0];
				for s in sizes {
					for src in [Source::Close, Source::Volume, Source::HL2, Source::VolumedPrice] {
						k += 1;
						if !ctx.mine(k) {
							continue;
						}
						let cls = if s.is_nan() { "nan" } else if s.is_infinite() { "inf" } else if s < 0.0 { "negative" } else if s == 0.0 { "zero" } else if s < V::EPSILON as f64 { "below-eps" } else if s >= 1.0 { ">=1" } else { "valid" };
						drive(&m, &Par::Renko(s as V, src), &format!("size={cls}"), !(s >= V::EPSILON as f64 && s < 1.0), ctx.seed ^ k, r);
					}
				}
			}
			ParKind::Sz => {
				for p in [0usize, 1, 2, 3, 7, 255, 256, 65536, 1 << 20] {
					k += 1;
					if ctx.mine(k) {
						drive(&m, &Par::Sz(p), &format!("period={}", if p == 0 { "0" } else { "positive" }), p == 0, ctx.seed ^ k, r);
					}
				}
			}
			ParKind::U => {
				k += 1;
				if ctx.mine(k) {
					drive(&m, &Par::U, "unit", false, ctx.seed ^ k, r);
				}
			}
		}
	}
	// non-finite construction values: Err or Ok, never a panic
	for m in reg::methods() {
		k += 1;
		if !ctx.mine(k) || m.inp != InKind::V {
			continue;
		}
		for bad in [V::NAN, V::INFINITY, V::NEG_INFINITY] {
			let par = match m.par {
				ParKind::L => Par::L(5),
				ParKind::LL => Par::LL(2, 3),
				ParKind::W => Par::W(vec![1.0, 2.0]),
				_ => continue,
			};
			r.eval(1);
			if let Err(p) = guard(|| (m.ctor)(&par, &In::V(bad)).is_ok()) {
				r.violate(&format!("C10|{}::new|panic:{}|non-finite-initial-value|profile={PROFILE}", m.name, p.class()), &p.msg, || json!({"site": m.name, "initial_value": format!("{bad}")}));
			}
		}
	}
	// MA construction: 15 kinds x all period values
	let kinds: [fn(P) -> MA; 15] = [MA::SMA, MA::WMA, MA::HMA, MA::RMA, MA::EMA, MA::DMA, MA::DEMA, MA::TMA, MA::TEMA, MA::WSMA, MA::SMM, MA::SWMA, MA::TRIMA, MA::LinReg, MA::Vidya];
	for (ki, mk) in kinds.iter().enumerate() {
		for len in 0..=MAXP.min(70000) {
			if MAXP > 255 && len > 300 && len < MAXP - 2 && len % 4099 != 0 {
				continue;
			}
			k += 1;
			if !ctx.mine(k) {
				continue;
			}
			r.eval(1);
			let ma = mk(len as P);
			let xs = gen::values(2, ctx.seed ^ k, 300, len as usize);
			let res = guard(|| {
				use yata::core::Method;
				let mut i = ma.init(xs[0] as V).ok()?;
				for x in &xs {
					i.next(&(*x as V));
				}
				Some(())
			});
			match res {
				Err(p) => r.violate(&format!("C10|MA::{}::init|panic:{}|length={}|profile={PROFILE}", MA_KEYS[ki], p.class(), pclass(len)), &format!("{} ({})", p.msg, p.loc), || json!({"ma": format!("{ma:?}")})),
				Ok(Some(())) => r.cell(&format!("ma-ok:{}", MA_KEYS[ki])),
				Ok(None) => r.cell(&format!("ma-err:{}", MA_KEYS[ki])),
			}
		}
	}
}

fn fclass(x: f64) -> &'static str {
	if x.is_nan() {
		"nan"
	} else if x.is_infinite() {
		if x > 0.0 {
			"+inf"
		} else {
			"-inf"
		}
	} else if x < 0.0 {
		"negative"
	} else if x == 0.0 {
		"zero"
	} else if x < 1e-100 {
		"tiny"
	} else if x > 1e100 {
		"huge"
	} else if x == 1.0 {
		"one"
	} else if x < 1.0 {
		"(0,1)"
	} else {
		">1"
	}
}

const STREAM_CLASSES: [&str; 7] = ["flat-stretches", "zero-volume", "grid", "trends", "long-ramp", "trend-ripple", "single-price-bars"];
fn candle_streams(seed: u64) -> Vec<Vec<Candle>> {
	vec![gen::candles(1, seed, 300, 10), gen::candles(2, seed ^ 1, 300, 10), gen::candles(3, seed ^ 2, 300, 10), gen::candles(4, seed ^ 3, 300, 10), gen::candles(7, seed ^ 4, 700, 10), gen::candles(8, seed ^ 5, 900, 10), gen::candles(9, seed ^ 6, 300, 10)]
}

/// build the config from a JSON object, validate, init, drive
fn drive_indicator(d: &reg::IDesc, base: &dyn DC, obj: &Map<String, Value>, desc: &str, seed: u64, r: &mut Report) {
	r.eval(1);
	r.case_named(d.name, &[101, reg::json_hash(&Value::Object(obj.clone())), seed]);
	let case = |what: &str| json!({"indicator": d.name, "config": obj, "what": what, "profile": PROFILE});
	// deserialization itself may legitimately fail (e.g. f32 overflow): not our concern
	let Ok(Ok(cfg)) = guard(|| base.de(&Value::Object(obj.clone()))) else { return };
	let valid = match guard(|| cfg.validate()) {
		Ok(v) => v,
		Err(p) => {
			r.violate(&format!("C10|{}::validate|panic:{}|{desc}|profile={PROFILE}", d.name, p.class()), &p.msg, || case("validate"));
			return;
		}
	};
	let streams = candle_streams(seed);
	match guard(|| cfg.init(&streams[0][0]).map(|_| ())) {
		Err(p) => {
			r.violate(&format!("C10|{}::init|panic:{}|{desc}|valid={valid}|profile={PROFILE}", d.name, p.class()), &format!("{} ({})", p.msg, p.loc), || case("init"));
		}
		Ok(Err(_)) => r.cell(&format!("init-err:{}", d.name)),
		Ok(Ok(())) => {
			if !valid {
				r.violate(&format!("C10|{}::init|ok-although-validate-false|{desc}|profile={PROFILE}", d.name), "init returned Ok although validate() is false", || case("init"));
			}
			r.cell(&format!("init-ok:{}", d.name));
			for (si, st) in streams.iter().enumerate() {
				let res = guard(|| {
					let mut i = cfg.init(&st[0]).ok()?;
					for c in st {
						i.next(c);
					}
					Some(())
				});
				r.eval(st.len() as u64);
				if let Err(p) = res {
					r.violate(&format!("C10|{}::next|panic:{}@{}|profile={PROFILE}", d.name, p.class(), p.file()), &format!("an initialised indicator panicked on valid candles: {} ({})", p.msg, p.loc), || json!({"case": case("stream"), "stream": si, "config_class": desc, "stream_class": STREAM_CLASSES.get(si)}));
					break;
				}
			}
		}
	}
}

fn indicators(ctx: &Ctx, r: &mut Report) {
	let mut k = 0u64;
	let floats: [f64; 16] = [f64::NAN, f64::INFINITY, f64::NEG_INFINITY, -1.0, -0.0, 0.0, 1e-300, -1e-300, 1.0, 0.5, 0.999999, 1.000001, 2.0, 1e300, 0.25, 100.0];
	for d in reg::indicators() {
		let base = (d.default)();
		let Ok(Value::Object(obj)) = base.ser() else { continue };
		for (name, cur) in obj.iter() {
			match field_kind(cur) {
				FieldKind::Period => {
					for p in 0..=MAXP.min(300).max(255).min(MAXP) {
						k += 1;
						if !ctx.mine(k) {
							continue;
						}
						let mut o = obj.clone();
						o.insert(name.clone(), json!(p));
						drive_indicator(&d, base.as_ref(), &o, &format!("{name}={}", pclass(p)), ctx.seed ^ k, r);
					}
					if MAXP > 300 {
						for p in [1000, 65534, 65535, MAXP - 1, MAXP] {
							if p <= MAXP {
								k += 1;
								if ctx.mine(k) {
									let mut o = obj.clone();
									o.insert(name.clone(), json!(p));
									drive_indicator(&d, base.as_ref(), &o, &format!("{name}={}", pclass(p)), ctx.seed ^ k, r);
								}
							}
						}
					}
				}
				FieldKind::Float => {
					for x in floats {
						k += 1;
						if !ctx.mine(k) {
							continue;
						}
						let mut o = obj.clone();
						// non-finite values cannot travel through JSON; they are injected through set() below
						if !x.is_finite() {
							let mut c = base.bclone();
							let txt = if x.is_nan() { "NaN".to_string() } else if x > 0.0 { "inf".into() } else { "-inf".into() };
							if let Ok(Ok(())) = guard(|| c.set(name, txt)) {
								// drive the config object directly (cannot be serialized with NaN): validate/init/run
								r.eval(1);
								let st = candle_streams(ctx.seed ^ k);
								let res = guard(|| {
									let v = c.validate();
									let i = c.init(&st[0][0]);
									(v, i.map(|mut i| {
										for cd in &st[0] {
											i.next(cd);
										}
									}).is_ok())
								});
								match res {
									Err(p) => r.violate(&format!("C10|{}::init|panic:{}|{name}={}|profile={PROFILE}", d.name, p.class(), fclass(x)), &format!("{} ({})", p.msg, p.loc), || json!({"indicator": d.name, "field": name, "value": format!("{x}")})),
									Ok((false, true)) => r.violate(&format!("C10|{}::init|ok-although-validate-false|{name}={}|profile={PROFILE}", d.name, fclass(x)), "init returned Ok although validate() is false", || json!({"indicator": d.name, "field": name, "value": format!("{x}")})),
									Ok(_) => r.cell(&format!("float-special:{}", d.name)),
								}
							}
							continue;
						}
						o.insert(name.clone(), json!(x));
						drive_indicator(&d, base.as_ref(), &o, &format!("{name}={}", fclass(x)), ctx.seed ^ k, r);
					}
				}
				FieldKind::Ma => {
					for key in MA_KEYS {
						for p in [0u64, 1, 2, 3, 127, 128, MAXP - 2, MAXP - 1, MAXP] {
							k += 1;
							if !ctx.mine(k) {
								continue;
							}
							// apply the kind to every MA field so that same-kind constraints hold, the period only to this one
							let mut o = obj.clone();
							for (n2, c2) in obj.iter() {
								if field_kind(c2) == FieldKind::Ma {
									let pp = c2.as_object().and_then(|m| m.values().next()).and_then(Value::as_u64).unwrap_or(2);
									let mut mm = Map::new();
									mm.insert(key.to_string(), json!(if n2 == name { p } else { pp }));
									o.insert(n2.clone(), Value::Object(mm));
								}
							}
							drive_indicator(&d, base.as_ref(), &o, &format!("{name}={key}({})", pclass(p)), ctx.seed ^ k, r);
						}
					}
				}
				FieldKind::Source => {
					for s in SOURCE_NAMES {
						k += 1;
						if !ctx.mine(k) {
							continue;
						}
						let mut o = obj.clone();
						o.insert(name.clone(), json!(s));
						drive_indicator(&d, base.as_ref(), &o, &format!("{name}=source"), ctx.seed ^ k, r);
					}
				}
				_ => {}
			}
		}
		// one uninterrupted trend of 70 000 candles, up and down (every candle a new extreme, no reversal): counters that are
		// incremented per new extreme / per step of a trend and reset only on a reversal reach the capacity of u8 and u16
		k += 1;
		if ctx.mine(k) {
			for up in [true, false] {
				let f: f64 = if up { 1.0002 } else { 1.0 / 1.0002 };
				let mut p = 100.0f64;
				let ramp: Vec<Candle> = (0..70_000)
					.map(|_| {
						let o = p;
						p *= f;
						gen::mk(o, o.max(p), o.min(p), p, 1000.0)
					})
					.collect();
				let res = guard(|| {
					let mut i = base.init(&ramp[0]).ok()?;
					for c in &ramp {
						i.next(c);
					}
					Some(())
				});
				r.eval(ramp.len() as u64);
				if let Err(p) = res {
					r.violate(&format!("C10|{}::next|panic:{}@{}|profile={PROFILE}", d.name, p.class(), p.file()), &format!("an initialised indicator panicked on valid candles: {} ({})", p.msg, p.loc), || json!({"indicator": d.name, "config": "default", "stream": if up { "70000-candle uninterrupted up-trend" } else { "70000-candle uninterrupted down-trend" }}));
				}
			}
			r.cell("stream:70000-candle-uninterrupted-trend");
		}
		// systematic: every MA kind in all MA fields (default periods) x every source
		let has_source = obj.iter().any(|(_, c)| field_kind(c) == FieldKind::Source);
		let has_ma = obj.iter().any(|(_, c)| field_kind(c) == FieldKind::Ma);
		if has_ma || has_source {
			let no_src = [""];
			let srcs: &[&str] = if has_source { &SOURCE_NAMES } else { &no_src };
			let no_ma = [""];
			let keys: &[&str] = if has_ma { &MA_KEYS } else { &no_ma };
			for key in keys {
				for src in srcs {
					k += 1;
					if !ctx.mine(k) {
						continue;
					}
					let mut o = obj.clone();
					for (n2, c2) in obj.iter() {
						match field_kind(c2) {
							FieldKind::Ma if !key.is_empty() => {
								let pp = c2.as_object().and_then(|m| m.values().next()).and_then(Value::as_u64).unwrap_or(3);
								let mut mm = Map::new();
								mm.insert(key.to_string(), json!(pp));
								o.insert(n2.clone(), Value::Object(mm));
							}
							FieldKind::Source if !src.is_empty() => {
								o.insert(n2.clone(), json!(src));
							}
							_ => {}
						}
					}
					drive_indicator(&d, base.as_ref(), &o, &format!("kind-x-source:{key}:{src}"), ctx.seed ^ k, r);
				}
			}
		}
		// random joint configurations
		let nj = ctx.pick(4000u64, 50000);
		for j in 0..nj {
			k += 1;
			if !ctx.mine(k) {
				continue;
			}
			let mut rng = Rng::new(ctx.seed ^ k << 4 ^ j);
			let mut o = obj.clone();
			let mut tags: Vec<String> = Vec::new();
			let same = *rng.pick(&MA_KEYS);
			for (name, cur) in obj.iter() {
				match field_kind(cur) {
					FieldKind::Period => {
						let p = match rng.below(6) {
							0 => 0,
							1 => MAXP,
							2 => MAXP - 1,
							3 => 1 + rng.below(3),
							_ => 1 + rng.below(MAXP.min(300)),
						};
						if matches!(pclass(p).as_str(), "0" | "MAX" | "MAX-1" | "1") {
							tags.push(format!("{name}={}", pclass(p)));
						}
						o.insert(name.clone(), json!(p));
					}
					FieldKind::Float => {
						let x = *rng.pick(&[0.0, 1.0, 0.5, 0.25, 1e-300, -0.5, 2.0, 0.999, 0.001, 100.0]);
						if matches!(fclass(x), "zero" | "negative" | "tiny") {
							tags.push(format!("{name}={}", fclass(x)));
						}
						o.insert(name.clone(), json!(x));
					}
					FieldKind::Ma => {
						let p = match rng.below(6) {
							0 => MAXP,
							1 => MAXP - 1,
							2 => 1 + rng.below(3),
							_ => 2 + rng.below(60),
						};
						let key = if rng.chance(0.8) { same } else { *rng.pick(&MA_KEYS) };
						if matches!(pclass(p).as_str(), "0" | "MAX" | "MAX-1" | "1") {
							tags.push(format!("{name}={key}({})", pclass(p)));
						}
						let mut mm = Map::new();
						mm.insert(key.to_string(), json!(p));
						o.insert(name.clone(), Value::Object(mm));
					}
					FieldKind::Source => {
						o.insert(name.clone(), json!(*rng.pick(&SOURCE_NAMES)));
					}
					FieldKind::Bool => {
						o.insert(name.clone(), json!(rng.chance(0.5)));
					}
					_ => {}
				}
			}
			let desc = if tags.is_empty() { "joint:generic".to_string() } else { format!("joint:{}", tags.join(",")) };
			drive_indicator(&d, base.as_ref(), &o, &desc, ctx.seed ^ k, r);
		}
	}
}

fn text_parsing(ctx: &Ctx, r: &mut Report) {
	let mut rng = Rng::new(ctx.seed ^ 0x7E57);
	let inds = reg::indicators();
	for _ in 0..ctx.pick(20_000, 400_000) {
		// mostly short texts; one in five is long (up to 160 characters) and rich in multi-byte characters, so that every
		// byte offset up to a few hundred falls inside a character for some text
		let long = rng.chance(0.2);
		let len = if long { 20 + rng.below(140) as usize } else { rng.below(24) as usize };
		let s: String = (0..len)
			.map(|_| match if long { rng.below(3) } else { rng.below(8) } {
				0 if long => *rng.pick(&['é', 'я', '中', '𝄞', 'ß', '€', '日', '🙂', 'ａ']),
				0 => char::from_u32(rng.below(0x11_0000) as u32).unwrap_or('\u{FFFD}'),
				1 => *rng.pick(&['-', '+', '.', 'e', 'E', ' ', '\t', '\0', '_']),
				2 | 3 => (b'0' + rng.below(10) as u8) as char,
				4 => *rng.pick(&['s', 'm', 'a', 'e', 'w', 'c', 'l', 'o', 'h', 'i', 'g', 't', 'p']),
				_ => (b' ' + rng.below(95) as u8) as char,
			})
			.collect();
		r.eval(3);
		r.case_named(&s, &[102]);
		if let Err(p) = guard(|| MA::from_str(&s).is_ok()) {
			r.violate(&format!("C10|MA::from_str|panic:{}|profile={PROFILE}", p.class()), &p.msg, || json!({"text": s}));
		}
		if let Err(p) = guard(|| Source::from_str(&s).is_ok()) {
			r.violate(&format!("C10|Source::from_str|panic:{}|profile={PROFILE}", p.class()), &p.msg, || json!({"text": s}));
		}
		if let Err(p) = guard(|| (Source::try_from(s.as_str()).is_ok(), Source::try_from(s.clone()).is_ok(), s.parse::<MA>().is_ok())) {
			r.violate(&format!("C10|TryFrom<text>|panic:{}|profile={PROFILE}", p.class()), &p.msg, || json!({"text": s}));
		}
		if long {
			r.cell("text-parsing:long-multibyte");
		}
		let d = &inds[rng.below(inds.len() as u64) as usize];
		let mut c = (d.default)();
		let name = match c.ser() {
			Ok(Value::Object(o)) if rng.chance(0.8) && !o.is_empty() => o.keys().nth(rng.below(o.len() as u64) as usize).cloned().unwrap_or_default(),
			_ => s.clone(),
		};
		if let Err(p) = guard(|| c.set(&name, s.clone()).is_ok()) {
			r.violate(&format!("C10|{}::set|panic:{}|profile={PROFILE}", d.name, p.class()), &p.msg, || json!({"name": name, "text": s}));
		}
	}
	r.cell("text-parsing:arbitrary-strings");
}

pub fn run(ctx: &Ctx, r: &mut Report) {
	methods(ctx, r);
	indicators(ctx, r);
	if ctx.mine(1) {
		text_parsing(ctx, r);
	}
	if ctx.mine(0) {
		r.sample(|| json!({"site": "EMA::new", "params": "all 256 lengths", "oracle": "Ok or Err, never a panic; accepted instances survive 4 hostile valid streams", "profile": PROFILE}));
		r.sample(|| json!({"site": "MoneyFlowIndex", "field": "period", "values": "0..=255, others default", "oracle": "validate()==false => init Err; init Ok => no panic on flat / zero-volume / grid / trending candles"}));
	}
}
