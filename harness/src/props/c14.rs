//! C14 — crossing and reversal detectors are definitional for any stream length.
use crate::gen;
use crate::refm::{lower_reversal, upper_reversal, RefCross};
use crate::reg::action_code;
use crate::rep::{fjs, guard, Report};
use crate::rng::Rng;
use crate::{Ctx, P, V};
use serde_json::{json, Value};
use yata::core::{Action, Method};
use yata::methods::{Cross, CrossAbove, CrossUnder, LowerReversalSignal, ReversalSignal, UpperReversalSignal};

fn act(i: i8) -> Action {
	Action::from(i)
}
fn same(a: Action, b: Action) -> bool {
	action_code(a) == action_code(b)
}

/// run the three crossing detectors over a pair stream and compare with the definition
fn check_cross(pairs: &[(V, V)], seeded: bool, r: &mut Report, tag: &str) {
	if pairs.is_empty() {
		return;
	}
	r.case(&[14, seeded as u64, crate::reg::words_hash(pairs.iter().flat_map(|(a, b)| [crate::reg::vbits(*a), crate::reg::vbits(*b)]))]);
	let first = pairs[0];
	let (mut c, mut ca, mut cu, mut cs) = if seeded {
		(Cross::new((), &first).unwrap(), CrossAbove::new((), &first).unwrap(), CrossUnder::new((), &first).unwrap(), Cross::new((), &(first.1, first.0)).unwrap())
	} else {
		(Cross::default(), CrossAbove::default(), CrossUnder::default(), Cross::default())
	};
	let mut cab = ca; // binary() form
	let mut cub = cu;
	let mut rf = if seeded { RefCross::new(first.0, first.1) } else { RefCross::default() };
	let mut fired = [0u64; 3];
	for (i, &(v, b)) in pairs.iter().enumerate() {
		let (ea, eu) = rf.next(v, b);
		let got_c = c.next(&(v, b));
		let got_a = ca.next(&(v, b));
		let got_u = cu.next(&(v, b));
		let got_s = cs.next(&(b, v));
		let bin_a = cab.binary(v, b);
		let bin_u = cub.binary(v, b);
		let case = || json!({"pairs(value,base)": pairs[..=i].iter().map(|p| json!([p.0 as f64, p.1 as f64])).collect::<Vec<_>>(), "step": i, "seeded_with_first": seeded, "expect_above": ea, "expect_under": eu});
		if !same(got_a, act(ea as i8)) {
			r.violate(&format!("C14|CrossAbove|{}", if ea { "missed" } else { "spurious" }), "CrossAbove differs from: previous difference < 0 and current >= 0", case);
		}
		if !same(got_u, act(eu as i8)) {
			r.violate(&format!("C14|CrossUnder|{}", if eu { "missed" } else { "spurious" }), "CrossUnder differs from: previous difference > 0 and current <= 0", case);
		}
		let ec = ea as i8 - eu as i8;
		if !same(got_c, act(ec)) {
			r.violate("C14|Cross|not-above-minus-under", "Cross is not CrossAbove - CrossUnder", case);
		}
		if !same(got_s, act(-ec)) {
			r.violate("C14|Cross|swap-not-negation", "Cross(b,a) != -Cross(a,b)", case);
		}
		if bin_a != ea || bin_u != eu {
			r.violate("C14|binary|differs-from-action", "binary() differs from the Action form", case);
		}
		fired[0] += ea as u64;
		fired[1] += eu as u64;
		fired[2] += (!ea && !eu) as u64;
	}
	r.eval(pairs.len() as u64);
	r.cell_n(&format!("cross:{tag}:above-fired"), fired[0]);
	r.cell_n(&format!("cross:{tag}:under-fired"), fired[1]);
	r.cell_n(&format!("cross:{tag}:silent"), fired[2]);
}

fn cross_exhaustive(ctx: &Ctx, r: &mut Report) {
	// deltas {-1, -0.0, +0.0, 1} as (value, base) pairs
	let sym: [(V, V); 4] = [(1.0, 2.0), (-0.0, 0.0), (0.0, 0.0), (2.0, 1.0)];
	let len = ctx.pick(8, 10);
	let mut k = 0u64;
	gen::for_all_sequences(4, len, |idx| {
		k += 1;
		if !ctx.mine(k) {
			return;
		}
		let pairs: Vec<(V, V)> = idx.iter().map(|&i| sym[i]).collect();
		check_cross(&pairs, true, r, "exhaustive");
		if k % 7 == 0 {
			check_cross(&pairs, false, r, "exhaustive-default");
		}
	});
	r.count("cross_exhaustive_sequences", k / ctx.nshards.max(1));
	r.cell(&format!("cross:exhaustive-len{len}"));
}

fn cross_random(ctx: &Ctx, r: &mut Report) {
	let n = ctx.pick(1500, 4000);
	for k in 0..n {
		if !ctx.mine(k) {
			continue;
		}
		let mut rng = Rng::new(ctx.seed ^ k << 12 ^ 0xC14);
		let len = 300;
		let ca = (k % 10) as usize;
		let cb = ((k / 10) % 10) as usize;
		let a = gen::values(ca, ctx.seed ^ k, len, 5);
		let mut b = gen::values(cb, ctx.seed ^ k ^ 0xBBBB, len, 5);
		// touches: make the base equal to the value on some steps, NaN on rare steps
		for i in 0..len {
			if rng.chance(0.15) {
				b[i] = a[i];
			}
			if rng.chance(0.005) {
				b[i] = f64::NAN;
			}
		}
		let pairs: Vec<(V, V)> = a.iter().zip(b.iter()).map(|(x, y)| (*x as V, *y as V)).collect();
		check_cross(&pairs, k % 2 == 0, r, "random");
	}
}

pub struct RevCase {
	pub left: usize,
	pub right: usize,
	pub xs: Vec<f64>,
	pub tag: String,
}

pub fn check_reversal(c: &RevCase, r: &mut Report) -> bool {
	let (l, rt) = (c.left as P, c.right as P);
	r.case(&[141, c.left as u64, c.right as u64, crate::reg::f64s_hash(&c.xs)]);
	let init = c.xs[0] as V;
	let made = guard(|| (UpperReversalSignal::new(l, rt, &init), LowerReversalSignal::new(l, rt, &init), ReversalSignal::new(l, rt, &init)));
	let (mut up, mut lo, mut both) = match made {
		Ok((Ok(a), Ok(b), Ok(c))) => (a, b, c),
		Ok(_) => {
			r.violate("C14|reversal|constructor-rejects-valid", "constructor rejected a documented-valid (left,right)", || json!({"left": c.left, "right": c.right}));
			return false;
		}
		Err(p) => {
			r.violate(&format!("C14|reversal|constructor-panic:{}", p.class()), &p.msg, || json!({"left": c.left, "right": c.right}));
			return false;
		}
	};
	let mut ok = true;
	let mut ev = [0u64; 6];
	for i in 0..c.xs.len() {
		let x = c.xs[i] as V;
		let eu = upper_reversal(&c.xs, i, c.left, c.right);
		let el = lower_reversal(&c.xs, i, c.left, c.right);
		let res = guard(|| (up.next(&x), lo.next(&x), both.next(&x)));
		let (gu, gl, gb) = match res {
			Ok(t) => t,
			Err(p) => {
				r.violate(&format!("C14|reversal|panic:{}", p.class()), &p.msg, || json!({"left": c.left, "right": c.right, "step": i}));
				return false;
			}
		};
		let late = if i >= P::MAX as usize - 1 { "position>=PeriodType::MAX" } else { "position<PeriodType::MAX" };
		let case = |what: &str| {
			let from = i.saturating_sub(c.left + c.right + 2);
			json!({"left": c.left, "right": c.right, "step": i, "what": what, "window_tail": fjs(&c.xs[from..=i]), "stream_class": c.tag, "expected_upper": eu, "expected_lower": el,
				"stream": if i <= 4000 { fjs(&c.xs[..=i]) } else { Value::Null }})
		};
		if !same(gu, act(eu as i8)) {
			r.violate(&format!("C14|UpperReversalSignal|{}|{late}", if eu { "missed" } else { "spurious" }), "upper reversal differs from the definition", || case("upper"));
			ok = false;
		}
		if !same(gl, act(el as i8)) {
			r.violate(&format!("C14|LowerReversalSignal|{}|{late}", if el { "missed" } else { "spurious" }), "lower reversal differs from the definition", || case("lower"));
			ok = false;
		}
		let eb = el as i32 - eu as i32;
		let sb = match gb {
			Action::Buy(v) => v as i32,
			Action::Sell(v) => -(v as i32),
			Action::None => 0,
		};
		if sb != eb * 255 {
			r.violate(&format!("C14|ReversalSignal|not-lower-minus-upper|{late}"), "ReversalSignal is not lower - upper", || case("both"));
			ok = false;
		}
		ev[0] += eu as u64;
		ev[1] += el as u64;
		if i >= P::MAX as usize {
			ev[2] += (eu || el) as u64;
		}
		// tie events: the pivot has an equal element on its left / the fired pivot is part of a plateau
		if (eu || el) && i >= c.right {
			let p = i - c.right;
			let lo_i = p.saturating_sub(c.left);
			if c.xs[lo_i..p].iter().any(|&x| x == c.xs[p]) {
				ev[3] += 1;
			}
		}
		if !ok && r.viol.len() > 20 {
			break;
		}
	}
	r.eval(c.xs.len() as u64 * 3);
	let b = if c.left + c.right <= 12 { "small" } else if c.left + c.right <= 100 { "medium" } else { "large" };
	r.cell_n(&format!("reversal:{b}:upper-fired"), ev[0]);
	r.cell_n(&format!("reversal:{b}:lower-fired"), ev[1]);
	r.cell_n("reversal:fired-at-position>=PeriodType::MAX", ev[2]);
	r.cell_n("reversal:fired-with-equal-element-on-the-left(tie)", ev[3]);
	r.sample_case(29, || json!({"detectors": "Upper/Lower/ReversalSignal", "left": c.left, "right": c.right, "tag": c.tag, "stream (first 24)": crate::rep::fjs(&c.xs[..c.xs.len().min(24)]), "steps": c.xs.len(), "upper fired": ev[0], "lower fired": ev[1], "fired beyond position PeriodType::MAX": ev[2], "verdict": if ok { "held" } else { "violated" }}));
	ok
}

fn reversal_exhaustive(ctx: &Ctx, r: &mut Report) {
	// all (left,right) with left+right <= 5 on all sequences of length <= 9 (11) over {0,1,2}, plus {-0.0,+0.0,1}
	let alpha: [[f64; 3]; 2] = [[0.0, 1.0, 2.0], [-0.0, 0.0, 1.0]];
	let len = ctx.pick(9, 11);
	let mut pairs = Vec::new();
	for l in 1..=4 {
		for rt in 1..=4 {
			if l + rt <= 5 {
				pairs.push((l, rt));
			}
		}
	}
	let mut k = 0u64;
	for (ai, al) in alpha.iter().enumerate() {
		gen::for_all_sequences(3, len, |idx| {
			k += 1;
			if !ctx.mine(k) {
				return;
			}
			let xs: Vec<f64> = idx.iter().map(|&i| al[i]).collect();
			let (l, rt) = pairs[(k as usize / 16) % pairs.len()];
			check_reversal(&RevCase { left: l, right: rt, xs, tag: format!("exhaustive-alphabet{ai}") }, r);
		});
	}
	r.cell(&format!("reversal:exhaustive-3^{len}"));
}

pub fn rev_stream(class: usize, seed: u64, len: usize, n: usize) -> Vec<f64> {
	match class {
		// pivots every ~n steps on an integer grid, with plateaus and equal peaks
		100 => {
			let mut rng = Rng::new(seed);
			let mut v = Vec::with_capacity(len);
			let mut x = 50i64;
			let mut dir = 1i64;
			let mut left = 0usize;
			for _ in 0..len {
				if left == 0 {
					dir = -dir;
					left = 1 + rng.below(n as u64 + 2) as usize;
				}
				left -= 1;
				if !rng.chance(0.2) {
					x += dir * rng.range(0, 2);
				}
				v.push(x as f64);
			}
			v
		}
		c => gen::values(c, seed, len, n),
	}
}

fn reversal_random(ctx: &Ctx, r: &mut Report) {
	let maxsum: usize = 253;
	let mut pairs: Vec<(usize, usize)> = Vec::new();
	if ctx.thorough {
		for l in 1..maxsum {
			for rt in 1..=(maxsum - l) {
				pairs.push((l, rt));
			}
		}
	} else {
		let mut rng = Rng::new(ctx.seed ^ 0xABCD);
		for l in 1..=6 {
			for rt in 1..=6 {
				pairs.push((l, rt));
			}
		}
		for &(l, rt) in &[(1usize, 252usize), (252, 1), (126, 127), (127, 126), (1, 1), (100, 153), (200, 53), (2, 250)] {
			pairs.push((l, rt));
		}
		while pairs.len() < 2000 {
			let l = 1 + rng.below(252) as usize;
			let rt = 1 + rng.below((maxsum - l) as u64) as usize;
			pairs.push((l, rt));
		}
	}
	let len = ctx.pick(800, 700);
	for (k, &(l, rt)) in pairs.iter().enumerate() {
		if !ctx.mine(k as u64) {
			continue;
		}
		let classes = [100usize, 2, 5, 4, 100, 6];
		let class = classes[(k + ctx.seed as usize) % classes.len()];
		let xs = rev_stream(class, ctx.seed ^ (k as u64) << 8, len, (l + rt).min(40));
		check_reversal(&RevCase { left: l, right: rt, xs, tag: format!("class{class}") }, r);
	}
	r.cell("reversal:pairs-up-to-253");
	// long streams
	let nlong = ctx.pick(16u64, 50);
	let long_len = ctx.pick(300_000usize, 1_000_000);
	for k in 0..nlong {
		if !ctx.mine(k + 7) {
			continue;
		}
		let (l, rt) = [(2usize, 2usize), (4, 2), (1, 1), (10, 5), (3, 7), (50, 50), (1, 20), (126, 127)][(k % 8) as usize];
		let xs = rev_stream(if k % 2 == 0 { 100 } else { 5 }, ctx.seed ^ k ^ 0x1234, long_len, l + rt);
		check_reversal(&RevCase { left: l, right: rt, xs, tag: "long".into() }, r);
		r.cell("reversal:long-stream");
	}
}

pub fn run(ctx: &Ctx, r: &mut Report) {
	if let Some(rp) = &ctx.replay {
		let c = &rp["case"];
		if let Some(st) = c.get("stream").and_then(|s| s.as_array()) {
			let xs: Vec<f64> = st.iter().map(|x| x.as_f64().unwrap_or(f64::NAN)).collect();
			check_reversal(&RevCase { left: c["left"].as_u64().unwrap() as usize, right: c["right"].as_u64().unwrap() as usize, xs, tag: "replay".into() }, r);
			return;
		}
		if let Some(ps) = c.get("pairs(value,base)").and_then(|s| s.as_array()) {
			let pairs: Vec<(V, V)> = ps.iter().map(|p| (p[0].as_f64().unwrap_or(f64::NAN) as V, p[1].as_f64().unwrap_or(f64::NAN) as V)).collect();
			check_cross(&pairs, c["seeded_with_first"].as_bool().unwrap_or(true), r, "replay");
			return;
		}
	}
	cross_exhaustive(ctx, r);
	cross_random(ctx, r);
	reversal_exhaustive(ctx, r);
	reversal_random(ctx, r);
	if ctx.mine(0) {
		let xs = vec![2.0, 1.0, 2.0, 2.0, 3.0, 2.0, 1.0, 2.0, 3.0, 2.0, 3.0, 4.0, 1.0, 2.0, 1.0, 2.0, 3.0];
		let exp: Vec<i8> = (0..xs.len()).map(|i| lower_reversal(&xs, i, 2, 2) as i8 - upper_reversal(&xs, i, 2, 2) as i8).collect();
		r.sample(|| json!({"reversal(2,2) stream": xs, "reference lower-upper": exp}));
	}
}
