//! C19 / C20 — deterministic API programs whose results are hashed bit by bit, so that two builds of the
//! same source tree can be compared program by program (default vs unsafe_performance; u8 vs wider PeriodType).
//! The same programs are the workload of the memory oracles on the unsafe build (bounds hook, Miri, ASan).
use crate::gen;
use crate::icfg;
use crate::reg::{self, res_bits, In, MDesc, Out, Par, ParKind};
use crate::rep::{guard, Report};
use crate::rng::{hash_str, Rng};
use crate::work::stream_for;
use crate::{Ctx, P, V};
use serde_json::{json, Map, Value};
use yata::core::{Source, Window};

/// FNV-style running hash over result words
struct H {
	h: u64,
	n: u64,
	dump: bool,
}
impl H {
	fn new(dump: bool) -> Self {
		Self { h: 0xcbf2_9ce4_8422_2325, n: 0, dump }
	}
	fn w(&mut self, x: u64) {
		self.h ^= x;
		self.h = self.h.wrapping_mul(0x0000_0100_0000_01B3).rotate_left(5);
		self.n += 1;
	}
	fn op(&mut self, tag: &str, words: &[u64]) {
		for b in tag.bytes() {
			self.w(b as u64);
		}
		for x in words {
			self.w(*x);
		}
		if self.dump {
			println!("OP {} {tag} {}", self.n, words.iter().map(|x| format!("{x:x}")).collect::<Vec<_>>().join(","));
		}
	}
}

/// parameters are drawn within the default (u8) PeriodType so that every build can run every program
const MAXLEN: u64 = 254;

fn window_program(id: u64, seed: u64, h: &mut H, small: bool) {
	let mut r = Rng::new(seed ^ id << 16);
	let n = if small { 1 + r.below(6) } else { 1 + r.below(MAXLEN) } as usize;
	let mut w: Window<V> = Window::new(n as P, 0.5);
	let mut wl: Window<u64> = Window::new(n as P, 7);
	let steps = if small { 3 * n + 4 } else { (2 * n + 30).min(400) };
	for i in 0..steps {
		let x = gen::q(r.sf() * 100.0) as V;
		h.op("push", &[w.push(x).to_bits() as u64, wl.push(i as u64 + 100)]);
		match r.below(10) {
			0 => h.op("newest", &[w.newest().to_bits() as u64, *wl.newest()]),
			1 => h.op("oldest", &[w.oldest().to_bits() as u64, *wl.oldest()]),
			2 => {
				let j = r.below(n as u64 + 2);
				if j <= P::MAX as u64 {
					h.op("get", &[w.get(j as P).map_or(u64::MAX, |v| v.to_bits() as u64), wl.get(j as P).copied().unwrap_or(u64::MAX)]);
				}
			}
			3 => {
				// in-range indexing only (out of range panics in both builds by contract)
				let j = r.below(n as u64);
				h.op("index", &[w[j as P].to_bits() as u64, wl[j as P]]);
			}
			4 => {
				let k = r.below(n as u64 + 1) as usize;
				let mut it = wl.iter();
				let mut acc = Vec::new();
				for _ in 0..k {
					acc.push(it.next().copied().unwrap_or(u64::MAX));
				}
				acc.push(it.len() as u64);
				acc.push(it.last().copied().unwrap_or(u64::MAX));
				h.op("iter-partial", &acc);
			}
			5 => {
				let k = r.below(n as u64 + 1) as usize;
				let mut it = w.iter_rev();
				let mut acc = Vec::new();
				for _ in 0..k {
					acc.push(it.next().map_or(u64::MAX, |v| v.to_bits() as u64));
				}
				acc.push(it.size_hint().0 as u64);
				acc.push(it.count() as u64);
				h.op("iter_rev-partial", &acc);
			}
			6 => {
				let v: Vec<u64> = w.iter().map(|v| v.to_bits() as u64).collect();
				h.op("iter", &v);
			}
			7 => {
				let v: Vec<u64> = wl.as_slice().to_vec();
				h.op("as_slice", &v);
				h.op("len", &[wl.len() as u64, wl.is_empty() as u64]);
			}
			8 => {
				// serde round trip, continue on the restored window
				if let Ok(v) = serde_json::to_value(&w) {
					if let Ok(x) = serde_json::from_value::<Window<V>>(v) {
						w = x;
						h.op("serde", &[w.len() as u64]);
					}
				}
			}
			_ => {
				let idx = serde_json::to_value(&wl).ok().and_then(|v| v["index"].as_u64()).unwrap_or(0);
				wl = Window::from_parts(wl.as_slice().into(), idx as P);
				h.op("from_parts", &[idx]);
			}
		}
	}
}

fn out_words(o: &Out) -> Vec<u64> {
	o.bits()
}

fn method_program(m: &MDesc, id: u64, seed: u64, h: &mut H, small: bool) {
	let mut r = Rng::new(seed ^ id << 16 ^ hash_str(m.name));
	let len = match m.par {
		ParKind::U | ParKind::Renko => 1,
		ParKind::Sz => 1 + r.below(20),
		_ => {
			let lo = m.min_len.max(if m.par == ParKind::LL && m.name != "TSI" { 2 } else { 1 });
			let hi = if small { 8 } else { m.max_len.min(MAXLEN + 1) };
			if !small && r.chance(0.08) {
				// the largest accepted length (PeriodType::MAX itself for the kinds without a full-length window)
				hi
			} else if r.chance(0.6) {
				lo + r.below((hi.min(24)).saturating_sub(lo) + 1)
			} else {
				lo + r.below(hi - lo + 1)
			}
		}
	};
	let par = match m.par {
		ParKind::Renko => Par::Renko(*r.pick(&[0.01, 0.05, 0.1]) as V, *r.pick(&[Source::Close, Source::HL2, Source::TP])),
		_ => crate::work::params_for(m, len, &mut r),
	};
	let class = if m.name == "SMM" { (id % 10) as usize } else { r.below(10) as usize };
	let steps = if small { 3 * par.len() + 12 } else { (3 * par.len() + 60).min(500) };
	let xs = stream_for(m, class, seed ^ id, steps, par.len().max(1));
	h.op("params", &[len, class as u64]);
	let Ok(mut inst) = (m.ctor)(&par, &xs[0]) else {
		h.op("ctor-err", &[]);
		return;
	};
	for (i, x) in xs.iter().enumerate() {
		h.op("next", &out_words(&inst.next(x)));
		if m.peek && r.chance(0.3) {
			h.op("peek", &out_words(&inst.peek().unwrap()));
		}
		if r.chance(0.02) || i == steps / 2 {
			// serde round trip mid-way; continue on the restored instance
			if let Ok(v) = inst.ser() {
				if !has_null(&v) {
					if let Ok(x) = inst.de(&v) {
						inst = x;
						h.op("serde", &[]);
					}
				}
			}
		}
		if r.chance(0.02) {
			inst = inst.bclone();
		}
	}
}

fn has_null(v: &Value) -> bool {
	match v {
		Value::Null => true,
		Value::Array(a) => a.iter().any(has_null),
		Value::Object(m) => m.values().any(has_null),
		_ => false,
	}
}

fn indicator_program(d: &reg::IDesc, cfg: &dyn reg::DC, id: u64, seed: u64, h: &mut H, small: bool) {
	let mut r = Rng::new(seed ^ id << 16 ^ hash_str(d.name));
	let class = [0usize, 1, 2, 3, 4, 7][r.below(6) as usize];
	let cs = gen::candles(class, seed ^ id, if small { 40 } else { 300 }, 14);
	h.op("cfg", &[hash_str(&cfg.ser().unwrap_or_default().to_string()), class as u64]);
	let Ok(mut inst) = cfg.init(&cs[0]) else {
		h.op("init-err", &[]);
		return;
	};
	for (i, c) in cs.iter().enumerate() {
		h.op("next", &res_bits(&inst.next(c)));
		if i == cs.len() / 2 {
			if let Ok(v) = inst.ser() {
				if !has_null(&v) {
					if let Ok(x) = inst.de(&v) {
						inst = x;
						h.op("serde", &[]);
					}
				}
			}
		}
	}
}

/// list of program ids with descriptions; deterministic for (tier, seed)
fn programs(ctx: &Ctx, small: bool) -> Vec<(u64, String)> {
	let mut v = Vec::new();
	let nw = if small { 12 } else { ctx.pick(200, 2000) };
	for i in 0..nw {
		v.push((i, format!("window#{i}")));
	}
	let per_m = if small { 1 } else { ctx.pick(12, 120) };
	for (mi, m) in reg::methods().iter().enumerate() {
		// SMM is the only method with code of its own under `unsafe_performance`: ten times the programs, every value class
		let k = if m.name == "SMM" && !small { per_m * 10 } else { per_m };
		for j in 0..k.min(999) {
			v.push((100_000 + mi as u64 * 1000 + j, format!("method:{}#{j}", m.name)));
		}
	}
	for j in 0..(if small { 2 } else { ctx.pick(24, 200) }) {
		v.push((5_000_000 + j, format!("restored-inconsistent:Conv#{j}")));
	}
	let per_i = if small { 1 } else { ctx.pick(8, 60) };
	for (ii, d) in reg::indicators().iter().enumerate() {
		for j in 0..per_i {
			v.push((1_000_000 + ii as u64 * 1000 + j, format!("indicator:{}#{j}", d.name)));
		}
	}
	v
}

/// configurations chosen by the base build (so that every build runs the *same* program even where the set of
/// valid configurations depends on the PeriodType width)
static CONFIGS: std::sync::OnceLock<Map<String, Value>> = std::sync::OnceLock::new();
thread_local! {
	static LAST_CFG: std::cell::RefCell<Option<Value>> = std::cell::RefCell::new(None);
}

/// a serialized state whose parts disagree (fewer weights than window values in a Conv): derived Deserialize accepts it and
/// the default build walks the shorter of the two; code under the feature must not trust the two lengths to be equal
fn restored_inconsistent_program(id: u64, seed: u64, h: &mut H) {
	let mut r = Rng::new(seed ^ id << 7 ^ 0xC0);
	let m = 2 + r.below(5) as usize;
	let w: Vec<V> = (0..m).map(|_| gen::q(0.25 + r.f()) as V).collect();
	let xs: Vec<In> = (0..m + 10).map(|_| In::V(gen::q(10.0 * r.f()) as V)).collect();
	let md = reg::method("Conv");
	let Ok(mut inst) = (md.ctor)(&Par::W(w), &xs[0]) else { return };
	for x in &xs[..m + 2] {
		h.op("next", &out_words(&inst.next(x)));
	}
	let Ok(mut v) = inst.ser() else { return };
	let keep = r.below(m as u64) as usize;
	if let Some(ws) = v.get_mut("weights").and_then(Value::as_array_mut) {
		ws.truncate(keep);
	}
	h.op("truncate-weights", &[m as u64, keep as u64]);
	match inst.de(&v) {
		Err(_) => h.op("rejected", &[]),
		Ok(mut x) => {
			for y in &xs[m + 2..] {
				h.op("next-restored", &out_words(&x.next(y)));
			}
		}
	}
}

fn run_program(id: u64, seed: u64, h: &mut H, small: bool, per_i: usize) {
	if id < 100_000 {
		window_program(id, seed, h, small);
	} else if id < 1_000_000 {
		let mi = ((id - 100_000) / 1000) as usize;
		let ms = reg::methods();
		method_program(&ms[mi], id, seed, h, small);
	} else if id >= 5_000_000 {
		restored_inconsistent_program(id, seed, h);
	} else {
		let ii = ((id - 1_000_000) / 1000) as usize;
		let j = ((id - 1_000_000) % 1000) as usize;
		let inds = reg::indicators();
		if let Some(v) = CONFIGS.get().and_then(|m| m.get(&id.to_string())) {
			match (inds[ii].default)().de(v) {
				Ok(cfg) => indicator_program(&inds[ii], cfg.as_ref(), id, seed, h, small),
				Err(_) => h.op("config-not-representable-in-this-build", &[]),
			}
			return;
		}
		// under Miri only the default configuration (building the configuration pool is itself thousands of steps)
		let cfgs = if small { vec![(inds[ii].default)()] } else { icfg::configs(&inds[ii], per_i.max(1), seed) };
		let cfg = &cfgs[j % cfgs.len()];
		LAST_CFG.with(|c| *c.borrow_mut() = cfg.ser().ok());
		indicator_program(&inds[ii], cfg.as_ref(), id, seed, h, small);
	}
}

pub fn run(ctx: &Ctx, r: &mut Report) {
	let arg = ctx.arg.clone().unwrap_or_default();
	let small = arg == "miri";
	let per_i = if small { 1 } else { ctx.pick(8, 60) };
	if let Some(rest) = arg.strip_prefix("dump=") {
		let (idtxt, file) = rest.split_once(',').unwrap_or((rest, ""));
		if let Some(Value::Object(m)) = std::fs::read_to_string(file).ok().and_then(|t| serde_json::from_str::<Value>(&t).ok()).and_then(|v| v.get("configs").cloned()) {
			let _ = CONFIGS.set(m);
		}
		let id: u64 = idtxt.parse().unwrap_or(0);
		let mut h = H::new(true);
		let res = guard(|| run_program(id, ctx.seed, &mut h, false, per_i));
		println!("END {} {:x} {}", h.n, h.h, if res.is_ok() { "OK" } else { "PANIC" });
		return;
	}
	let plan: Value = arg.strip_prefix("skip=").and_then(|p| std::fs::read_to_string(p).ok()).and_then(|t| serde_json::from_str::<Value>(&t).ok()).unwrap_or(Value::Null);
	let skip: std::collections::BTreeSet<u64> = plan.get("skip").and_then(Value::as_array).map(|a| a.iter().filter_map(Value::as_u64).collect()).unwrap_or_default();
	if let Some(Value::Object(m)) = plan.get("configs") {
		let _ = CONFIGS.set(m.clone());
	}
	let progs = programs(ctx, small);
	let mut table = Map::new();
	let mut panicked = 0u64;
	for (k, (id, descr)) in progs.iter().enumerate() {
		if !ctx.mine(k as u64) {
			continue;
		}
		if skip.contains(id) {
			r.count("programs_skipped_because_the_default_build_panics", 1);
			continue;
		}
		let mut h = H::new(false);
		let res = guard(|| run_program(*id, ctx.seed, &mut h, small, per_i));
		let status = match &res {
			Ok(()) => "OK".to_string(),
			Err(p) => {
				panicked += 1;
				// a hook-detected out-of-bounds access is a C19 violation in its own right
				if p.msg.contains("YATA_VERIF_OOB") {
					r.violate("C19|bounds-hook|out-of-bounds-unchecked-access", &p.msg, || json!({"program": id, "description": descr, "seed": ctx.seed}));
				}
				format!("PANIC:{}", p.class())
			}
		};
		r.eval(h.n);
		r.case(&[19, *id, ctx.seed, small as u64]);
		let cfg = LAST_CFG.with(|c| c.borrow_mut().take());
		table.insert(id.to_string(), json!([format!("{:x}", h.h), h.n, status, descr, cfg]));
		let kind = descr.split('#').next().unwrap_or("").to_string();
		r.cell(&format!("program:{kind}"));
	}
	r.count("programs_run", table.len() as u64);
	r.count("programs_that_panicked_in_this_build", panicked);
	if ctx.mine(0) {
		r.sample(|| json!({"program": "method:SMM#3", "ops": "ctor, next x ~300 with peek, clone and serde round trips", "recorded": "hash over every result word"}));
	}
	// the table travels in the report through a note (the driver parses it)
	r.notes.push(format!("PROGRAMS {}", Value::Object(table)));
}
