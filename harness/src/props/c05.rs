//! C05 / C06 — indicator raw values equal the documented formulas; signals fire exactly under their documented conditions.
//! One execution, two oracles (values: interval containment; signals: three-valued expectation).
use crate::ap::Ap;
use crate::gen;
use crate::icfg;
use crate::refi::{make_refi, Sig};
use crate::reg::{self, action_code, DC};
use crate::rep::{fj, guard, Report};
use crate::{Ctx, V};
use serde_json::{json, Value};
use yata::core::{Action, Candle};

/// documentation-vs-code reporting can be switched off by callers that re-use `check` for another property (C07)
pub static DOC_CHECKS: std::sync::atomic::AtomicBool = std::sync::atomic::AtomicBool::new(true);

pub struct RunStats {
	pub steps: u64,
}

fn strength(a: Action) -> i32 {
	match a {
		Action::Buy(v) => v as i32,
		Action::Sell(v) => -(v as i32),
		Action::None => 0,
	}
}

/// does the action satisfy the expectation?
fn sig_ok(exp: &Sig, got: Action) -> bool {
	match exp {
		Sig::Exempt => true,
		Sig::Full(s) => strength(got) == *s as i32 * 255,
		Sig::Ratio(ap) => {
			if ap.is_undefined() {
				return true;
			}
			if matches!(got, Action::None) {
				return false;
			}
			let lo = (ap.lo().clamp(-1.0, 1.0) * 255.0).round() as i32;
			let hi = (ap.hi().clamp(-1.0, 1.0) * 255.0).round() as i32;
			let s = strength(got);
			s >= lo - 0 && s <= hi + 0
		}
	}
}

/// run one indicator configuration over one candle stream against its reference
pub fn check(prop_values: bool, prop_signals: bool, d: &reg::IDesc, cfg: &dyn DC, cs: &[Candle], tag: &str, seed: u64, class: usize, prefix: usize, r: &mut Report) -> bool {
	let cfgv = cfg.ser().unwrap_or(Value::Null);
	let Some(mut rf) = make_refi(d.name, &cfgv, &cs[0]) else { return false };
	let Ok(Ok(mut inst)) = guard(|| cfg.init(&cs[0])) else { return false };
	r.case_named(d.name, &[reg::json_hash(&cfgv), reg::candles_hash(cs), prefix as u64, prop_values as u64, prop_signals as u64]);
	let (nv, ns) = cfg.size();
	let mut val_exempt = vec![0u64; nv as usize];
	let mut sig_exempt = vec![0u64; ns as usize];
	let mut sig_fired = vec![[0u64; 3]; ns as usize];
	let mut max_used = vec![0.0f64; nv as usize];
	let mut steps = 0u64;
	let mut vfail = vec![false; nv as usize];
	let mut sfail = vec![false; ns as usize];
	// optional leading copies of the first candle (C08's signal prefix-invariance is decided here)
	// "init-not-refed": initialised with cs[0], the stream continues with cs[1] (the crate's own `over` feeds the first candle
	// again; a user who calls init(c0) and then next(c1), next(c2), ... is the case a seed taken from the wrong field of the
	// init candle, or a detector started from the wrong state, hides behind)
	let stream: Vec<Candle> = if tag == "init-not-refed" { cs[1..].to_vec() } else { std::iter::repeat(cs[0]).take(prefix).chain(cs.iter().cloned()).collect() };
	for (i, c) in stream.iter().enumerate() {
		let res = match guard(|| inst.next(c)) {
			Ok(x) => x,
			Err(_) => break, // panics are C10's concern
		};
		let gotv: Vec<f64> = res.values().iter().map(|x| *x as f64).collect();
		let (ev, es) = rf.next(c, &gotv);
		steps += 1;
		if std::env::var("YV_TRACE").is_ok() {
			eprintln!("i={i} c={:?} got={:?} {:?} exp={:?} {:?}", c, res.values(), res.signals(), ev.iter().map(|a| (a.v, a.e)).collect::<Vec<_>>(), es);
		}
		let case = |what: String, extra: Value| {
			json!({"indicator": d.name, "config": cfgv, "step": i, "what": what, "detail": extra, "stream_class": class, "seed": seed, "len": cs.len(), "tag": tag, "leading_copies": prefix,
				"candle": [c.open as f64, c.high as f64, c.low as f64, c.close as f64, c.volume as f64],
				"got_values": res.values().iter().map(|x| fj(*x as f64)).collect::<Vec<_>>(), "got_signals": res.signals().iter().map(|s| format!("{s:?}")).collect::<Vec<_>>(),
				"expected_values": ev.iter().map(|a| json!([fj(a.v), fj(a.e)])).collect::<Vec<_>>(), "expected_signals": es.iter().map(|s| format!("{s:?}")).collect::<Vec<_>>()})
		};
		if prop_values {
			if ev.len() != res.values().len() {
				r.violate(&format!("C05|{}|value-count", d.name), "reference and implementation disagree on the number of values", || case("count".into(), Value::Null));
				return true;
			}
			for (k, (a, got)) in ev.iter().zip(res.values().iter()).enumerate() {
				let g = *got as f64;
				if a.is_undefined() {
					val_exempt[k] += 1;
					continue;
				}
				let u = a.used(g);
				if u.is_finite() {
					max_used[k] = max_used[k].max(u);
				}
				if !a.contains(g) && !vfail[k] {
					vfail[k] = true;
					r.violate(&format!("C05|{}|value{k}|outside-allowance", d.name), "an indicator value differs from its documented formula by more than the rounding allowance", || case(format!("value{k}"), json!({"got": fj(g), "expected": fj(a.v), "radius": fj(a.e)})));
				}
			}
		}
		if prop_signals {
			if es.len() != res.signals().len() {
				r.violate(&format!("C06|{}|signal-count", d.name), "reference and implementation disagree on the number of signals", || case("count".into(), Value::Null));
				return true;
			}
			for (k, (e, got)) in es.iter().zip(res.signals().iter()).enumerate() {
				if matches!(e, Sig::Exempt) || matches!(e, Sig::Ratio(a) if a.is_undefined()) {
					sig_exempt[k] += 1;
					continue;
				}
				let st = strength(*got);
				sig_fired[k][if st > 0 { 0 } else if st < 0 { 1 } else { 2 }] += 1;
				if !sig_ok(e, *got) && !sfail[k] {
					sfail[k] = true;
					let kind = match e {
						Sig::Full(0) => "fired-without-condition",
						Sig::Full(_) if st == 0 => "silent-although-condition-holds",
						Sig::Full(_) => "wrong-direction-or-strength",
						_ => "wrong-proportional-strength",
					};
					r.violate(&format!("C06|{}|signal{k}|{kind}", d.name), "a signal differs from what its documented rule yields from the indicator's own values", || case(format!("signal{k}"), json!({"got": format!("{got:?}"), "expected": format!("{e:?}")})));
				}
			}
		}
		// documentation-vs-code: where the documented rule differs from what the code does, the code's rule is
		// what is checked above; a step on which the two rules give different answers is reported under its own signature
		let doc = DOC_CHECKS.load(std::sync::atomic::Ordering::Relaxed);
		if prop_signals && doc {
			for (what, k, e) in rf.doc_signals() {
				if let (Some(got), Some(code)) = (res.signals().get(k), es.get(k)) {
					if !matches!(e, Sig::Exempt) && !matches!(code, Sig::Exempt) && sig_ok(code, *got) && !sig_ok(&e, *got) {
						r.violate(&format!("C06|{}|signal{k}|{what}", d.name), "the signal follows the implementation's rule, which differs from the documented rule on this step", || case(format!("doc-signal{k}"), json!({"got": format!("{got:?}"), "documented_rule_gives": format!("{e:?}")})));
					}
				}
			}
		}
		if prop_values && doc {
			for (what, k, e) in rf.doc_values() {
				if let (Some(got), Some(code)) = (res.values().get(k), ev.get(k)) {
					let g = *got as f64;
					if !e.is_undefined() && !code.is_undefined() && code.contains(g) && !e.contains(g) {
						r.violate(&format!("C05|{}|value{k}|{what}", d.name), "the value follows the implementation's formula, which differs from the documented one on this step", || case(format!("doc-value{k}"), json!({"got": fj(g), "documented_formula_gives": fj(e.v)})));
					}
				}
			}
		}
		if vfail.iter().all(|x| *x) && sfail.iter().all(|x| *x) && (nv + ns) > 0 {
			break;
		}
	}
	r.eval(steps * (if prop_values { nv as u64 } else { 0 } + if prop_signals { ns as u64 } else { 0 }).max(1));
	r.sample_case(41, || json!({"indicator": d.name, "config": cfgv, "candle_class": gen::CANDLE_CLASSES.get(class % gen::CANDLE_CLASSES.len()), "leading_copies": prefix, "first_candle": format!("{:?}", cs[0]), "steps": steps, "value_steps_exempt(undefined)": val_exempt, "signal_steps_exempt(tie)": sig_exempt, "signals fired [buy,sell,silent] per slot": sig_fired, "max |error|/radius per value": max_used, "violated": vfail.iter().chain(sfail.iter()).any(|x| *x)}));
	for k in 0..nv as usize {
		if prop_values {
			r.count(&format!("value_steps:{}:{k}", d.name), steps);
			r.count(&format!("value_exempt:{}:{k}", d.name), val_exempt[k]);
			r.max(&format!("max error/radius {} value{k}", d.name), max_used[k]);
			if steps > 0 && val_exempt[k] * 5 < steps {
				r.cell(&format!("value:{}:{k}:{}", d.name, gen::CANDLE_CLASSES[class % gen::CANDLE_CLASSES.len()]));
			}
		}
	}
	for k in 0..ns as usize {
		if prop_signals {
			r.count(&format!("signal_exempt:{}:{k}", d.name), sig_exempt[k]);
			r.cell_n(&format!("signal:{}:{k}:buy", d.name), sig_fired[k][0]);
			r.cell_n(&format!("signal:{}:{k}:sell", d.name), sig_fired[k][1]);
			r.cell_n(&format!("signal:{}:{k}:silent", d.name), sig_fired[k][2]);
		}
	}
	true
}

fn ma_kind_of(cfg: &Value) -> String {
	if let Value::Object(m) = cfg {
		for v in m.values() {
			if let Value::Object(o) = v {
				if let Some(k) = o.keys().next() {
					return k.clone();
				}
			}
		}
	}
	"-".into()
}

fn run(values: bool, signals: bool, ctx: &Ctx, r: &mut Report) {
	let prop = if values { "C05" } else { "C06" };
	if let Some(rp) = &ctx.replay {
		let c = &rp["case"];
		let d = reg::indicator(c["indicator"].as_str().unwrap_or(""));
		if let Ok(cfg) = (d.default)().de(&c["config"]) {
			let class = c["stream_class"].as_u64().unwrap_or(0) as usize;
			let seed = c["seed"].as_u64().unwrap_or(0);
			let cs = gen::candles(class, seed, c["len"].as_u64().unwrap_or(400) as usize, 14);
			let tag = if c["tag"].as_str() == Some("init-not-refed") { "init-not-refed" } else { "replay" };
			check(values, signals, &d, cfg.as_ref(), &cs, tag, seed, class, c["leading_copies"].as_u64().unwrap_or(0) as usize, r);
		}
		return;
	}
	let ncfg = ctx.pick(60, 200);
	let classes: &[usize] = if ctx.thorough { &[0, 1, 2, 3, 4, 6, 7, 5, 8, 9] } else { &[0, 1, 2, 3, 4, 7, 5, 8, 9] };
	let steps = ctx.pick(600, 1500);
	let mut k = 0u64;
	let mut uncovered = Vec::new();
	for d in reg::indicators() {
		let cfgs = icfg::configs(&d, ncfg, ctx.seed);
		let mut covered = false;
		for (ci, cfg) in cfgs.iter().enumerate() {
			for (j, &class) in classes.iter().enumerate() {
				k += 1;
				if !ctx.mine(k) {
					covered |= make_refi(d.name, &cfg.ser().unwrap_or(Value::Null), &gen::candles(0, 1, 2, 2)[0]).is_some();
					continue;
				}
				let seed = ctx.seed ^ k << 10;
				let cs = gen::candles(class, seed, steps, 14);
				// C06 also runs streams with leading copies of the first candle (signal prefix-invariance, see C08)
				let prefix = if signals && (ci + j) % 3 == 1 { [1usize, 2, 13][(k % 3) as usize] } else { 0 };
				let tag = if prefix == 0 && (ci + 2 * j) % 4 == 3 { "init-not-refed" } else { "sweep" };
				let did = check(values, signals, &d, cfg.as_ref(), &cs, tag, seed, class, prefix, r);
				if did && tag == "init-not-refed" {
					r.cell(&format!("{prop}:init-not-refed"));
				}
				covered |= did;
				if did {
					r.cell(&format!("{prop}:ma-kind:{}:{}", d.name, ma_kind_of(&cfg.ser().unwrap_or(Value::Null))));
				}
			}
		}
		if !covered {
			uncovered.push(d.name);
		}
	}
	if ctx.mine(0) {
		if !uncovered.is_empty() {
			r.note(&format!("indicators without a reference model in this harness (not judged): {}", uncovered.join(", ")));
		}
		r.sample(|| json!({"indicator": "MACD", "oracle": "value0 = ma1(src)-ma2(src), value1 = signal(value0) in Approx arithmetic; signal0 = Cross(value0,value1), signal1 = Cross(value0,0) three-valued (Exempt when the difference is within its radius of 0)"}));
	}
}

pub fn run_c05(ctx: &Ctx, r: &mut Report) {
	run(true, false, ctx, r);
}
pub fn run_c06(ctx: &Ctx, r: &mut Report) {
	run(false, true, ctx, r);
}
