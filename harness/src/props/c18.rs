//! C18 — candle helpers satisfy their textbook identities; text forms round-trip.
use crate::ap::{Ap, EPS};
use crate::gen;
use crate::rep::{fj, guard, Report};
use crate::rng::Rng;
use crate::{Ctx, P, V};
use serde_json::json;
use std::convert::TryFrom;
use std::str::FromStr;
use yata::core::{Candle, Sequence, Source, OHLCV};
use yata::helpers::MA;

fn cj(c: &Candle) -> serde_json::Value {
	json!({"open": fj(c.open as f64), "high": fj(c.high as f64), "low": fj(c.low as f64), "close": fj(c.close as f64), "volume": fj(c.volume as f64),
		"bits": [format!("{:#x}", c.open.to_bits()), format!("{:#x}", c.high.to_bits()), format!("{:#x}", c.low.to_bits()), format!("{:#x}", c.close.to_bits()), format!("{:#x}", c.volume.to_bits())]})
}

fn biteq(a: V, b: V) -> bool {
	a.to_bits() == b.to_bits() || (a.is_nan() && b.is_nan())
}

const SOURCES: [Source; 8] = [Source::Close, Source::Open, Source::High, Source::Low, Source::HL2, Source::TP, Source::Volume, Source::VolumedPrice];

/// the documented validity predicate, clause by clause, written independently
fn valid_ref(c: &Candle) -> (bool, bool) {
	let (o, h, l, cl, v) = (c.open, c.high, c.low, c.close, c.volume);
	let finite = o.is_finite() && h.is_finite() && l.is_finite() && cl.is_finite();
	let positive = o > 0.0 && h > 0.0 && l > 0.0 && cl > 0.0;
	let ordered_close = l <= cl && cl <= h && l <= h;
	let ordered_open = l <= o && o <= h;
	let vol_ok = v.is_nan() || v >= 0.0;
	let base = finite && positive && ordered_close && vol_ok;
	(base, base && ordered_open)
}

fn check_candle(c: &Candle, pcs: &[V], r: &mut Report) {
	r.eval(1);
	r.case(&[18, crate::reg::candle_hash(c)]);
	let (o, h, l, cl, v) = (c.open, c.high, c.low, c.close, c.volume);
	// single-operation formulas: bit-exact
	let tp = (h + l + cl) / 3.0;
	if !biteq(c.tp(), tp) {
		r.violate("C18|tp|formula", "tp != (high+low+close)/3", || cj(c));
	}
	let hl2 = (h + l) * 0.5;
	if !biteq(c.hl2(), hl2) {
		r.violate("C18|hl2|formula", "hl2 != (high+low)/2", || cj(c));
	}
	let ohlc4 = (h + l + cl + o) * 0.25;
	if !biteq(c.ohlc4(), ohlc4) {
		// any summation order is a correct formula: accept within rounding
		let ex = (h as f64 + l as f64 + cl as f64 + o as f64) / 4.0;
		let m = (h.abs() as f64).max(l.abs() as f64).max(cl.abs() as f64).max(o.abs() as f64);
		if !(ex.is_finite() && ((c.ohlc4() as f64) - ex).abs() <= 4.0 * EPS * m) {
			r.violate("C18|ohlc4|formula", "ohlc4 != (open+high+low+close)/4", || cj(c));
		}
	}
	if !biteq(c.volumed_price(), c.tp() * v) {
		r.violate("C18|volumed_price|formula", "volumed_price != tp*volume", || cj(c));
	}
	// tp/hl2 against exact arithmetic, when finite
	{
		let ex = (h as f64 + l as f64 + cl as f64) / 3.0;
		let m = (h.abs() as f64).max(l.abs() as f64).max(cl.abs() as f64);
		if ex.is_finite() && m.is_finite() && (h as f64 + l as f64).abs() < V::MAX as f64 / 2.0 && !(((c.tp() as f64) - ex).abs() <= 4.0 * EPS * m + f64::MIN_POSITIVE) {
			r.violate("C18|tp|exact", "tp differs from the real-arithmetic mean beyond rounding", || cj(c));
		}
	}
	for s in SOURCES {
		let want = match s {
			Source::Close => cl,
			Source::Open => o,
			Source::High => h,
			Source::Low => l,
			Source::HL2 => hl2,
			Source::TP => tp,
			Source::Volume => v,
			Source::VolumedPrice => tp * v,
			_ => continue,
		};
		if !biteq(c.source(s), want) {
			r.violate(&format!("C18|source|{s:?}"), "source(kind) is not the documented quantity", || cj(c));
		}
	}
	// clv
	let clv = c.clv();
	#[allow(clippy::float_cmp)]
	if h == l {
		if !(clv == 0.0) {
			r.violate("C18|clv|zero-range", "clv is not 0 on a zero range", || cj(c));
		}
	} else if h.is_finite() && l.is_finite() && cl.is_finite() {
		let (hf, lf, cf) = (h as f64, l as f64, cl as f64);
		let m = hf.abs().max(lf.abs()).max(cf.abs());
		let num = Ap::new((cf - lf) - (hf - cf), 6.0 * EPS * m);
		let den = Ap::rounded(hf - lf, 1.0);
		let q = num / den;
		if !q.is_undefined() && (hf - lf).is_finite() && m < V::MAX as f64 / 4.0 && !q.contains(clv as f64) {
			r.violate("C18|clv|formula", "clv differs from ((close-low)-(high-close))/(high-low) beyond rounding", || json!({"candle": cj(c), "clv": fj(clv as f64), "expected": fj(q.v), "radius": fj(q.e)}));
		}
		r.max("clv used/allowance", q.used(clv as f64));
		// range: valid candles have clv in [-1,1]
		if valid_ref(c).0 && m < V::MAX as f64 / 4.0 && !((clv as f64).abs() <= 1.0 + 16.0 * EPS + q.e) {
			r.violate("C18|clv|range", "clv outside [-1,1] on a valid candle", || cj(c));
		}
	}
	// true range
	for &pc in pcs {
		let tr = c.tr_close(pc);
		if h >= l {
			let want = (h - l).max((h - pc).abs()).max((l - pc).abs());
			if !biteq(tr, want) {
				r.violate("C18|tr_close|formula", "tr_close != max(high-low, |high-pc|, |low-pc|)", || json!({"candle": cj(c), "prev_close": fj(pc as f64), "got": fj(tr as f64), "want": fj(want as f64)}));
			}
		}
		let prev = Candle { close: pc, ..*c };
		if !biteq(c.tr(&prev), tr) {
			r.violate("C18|tr|differs-from-tr_close", "tr(prev) != tr_close(prev.close)", || cj(c));
		}
	}
	// validate
	let (impl_rule, doc_rule) = valid_ref(c);
	let got = c.validate();
	if got != impl_rule {
		let why = if got { "accepts-invalid" } else { "rejects-valid" };
		r.violate(&format!("C18|validate|{why}"), "validate() disagrees with: finite, positive, low<=close<=high, volume NaN or >= 0", || cj(c));
	} else if got && !doc_rule {
		r.violate("C18|validate|accepts-open-outside-low-high", "validate() accepts a candle whose open lies outside [low, high] (doc: 'low cannot be more than any other value of the candle')", || cj(c));
	}
	// tuple / array impls
	let t = (o, h, l, cl, v);
	let a = [o, h, l, cl, v];
	let same = |x: V, y: V, z: V| biteq(x, y) && biteq(x, z);
	if !(same(c.tp(), t.tp(), a.tp()) && same(c.hl2(), t.hl2(), a.hl2()) && same(c.ohlc4(), t.ohlc4(), a.ohlc4()) && same(c.clv(), t.clv(), a.clv()) && same(c.volumed_price(), t.volumed_price(), a.volumed_price()))
		|| c.validate() != OHLCV::validate(&t)
		|| c.validate() != OHLCV::validate(&a)
		|| c.is_rising() != t.is_rising()
		|| c.is_falling() != a.is_falling()
	{
		r.violate("C18|tuple-array|differ", "tuple/array OHLCV impls differ from Candle's", || cj(c));
	}
	if c.is_rising() != (cl > o) || c.is_falling() != (cl < o) {
		r.violate("C18|is_rising|formula", "is_rising/is_falling wrong", || cj(c));
	}
	let c2 = Candle::from(&t);
	let c3: Candle = t.into();
	if c2 != *c || c3 != *c {
		r.violate("C18|from-tuple|differs", "Candle::from(tuple) differs", || cj(c));
	}
}

fn special_product(ctx: &Ctx, r: &mut Report) {
	let tiny = V::MIN_POSITIVE;
	// `sub`: subnormal (positive, finite, ordered like any other price)
	let sub = V::from_bits(3);
	let price: [V; 12] = [V::NAN, V::INFINITY, V::NEG_INFINITY, -1.0, -0.0, 0.0, sub, tiny, 1.0, 2.0, V::MAX, -sub];
	let vol: [V; 12] = [V::NAN, -V::NAN, V::INFINITY, V::NEG_INFINITY, -1.0, -0.0, 0.0, sub, tiny, 1.0, V::MAX, -tiny];
	let pcs: [V; 6] = [V::NAN, 0.5, 1.5, 3.0, V::INFINITY, -1.0];
	let mut k = 0u64;
	let mut accepted = 0u64;
	for &o in &price {
		for &h in &price {
			for &l in &price {
				k += 1;
				if !ctx.mine(k) {
					continue;
				}
				for &c in &price {
					for &v in &vol {
						let cd = Candle { open: o, high: h, low: l, close: c, volume: v };
						check_candle(&cd, &pcs, r);
						accepted += cd.validate() as u64;
					}
				}
			}
		}
	}
	r.count("special_product_accepted", accepted);
	r.cell("validate:special-value-product(12^4x12)");
}

fn random_candles(ctx: &Ctx, r: &mut Report) {
	let n = ctx.pick(150, 300);
	for k in 0..n {
		if !ctx.mine(k) {
			continue;
		}
		let class = (k % 6) as usize;
		let cs = gen::candles(class, ctx.seed ^ k << 16, 400, 14);
		let mut rng = Rng::new(ctx.seed ^ k);
		for (i, c) in cs.iter().enumerate() {
			let pc_prev = if i > 0 { cs[i - 1].close } else { c.open };
			let pcs = [pc_prev, gen::q(pc_prev as f64 * (1.0 + 0.2 * rng.sf())) as V, c.high, c.low, (c.high as f64 * 1.5) as V, (c.low as f64 * 0.5) as V];
			check_candle(c, &pcs, r);
			if !c.validate() {
				r.violate("C18|validate|rejects-valid", "a generated valid candle is rejected", || cj(c));
			}
		}
		r.cell(&format!("helpers:class:{}", gen::CANDLE_CLASSES[class]));
		// invalid perturbations of valid candles
		for c in cs.iter().take(60) {
			let mut bad = *c;
			match rng.below(8) {
				0 => bad.close = (c.high as f64 * 1.01) as V,
				1 => bad.close = (c.low as f64 * 0.99) as V,
				2 => {
					bad.high = c.low;
					bad.low = c.high;
					if c.high == c.low {
						continue;
					}
				}
				3 => bad.volume = -(c.volume.abs()) - 1.0,
				4 => bad.open = -c.open,
				5 => bad.low = 0.0,
				6 => bad.high = V::INFINITY,
				_ => bad.open = V::NAN,
			}
			check_candle(&bad, &[c.close], r);
			if bad.validate() && !(bad.low <= bad.close && bad.close <= bad.high && bad.low > 0.0 && bad.open > 0.0 && bad.high.is_finite() && (bad.volume.is_nan() || bad.volume >= 0.0)) {
				r.violate("C18|validate|accepts-invalid", "validate() accepts a perturbed invalid candle", || cj(&bad));
			}
		}
		// Sequence::validate
		let seq: Vec<Candle> = cs.iter().take(50).copied().collect();
		if !Sequence::validate(&seq) {
			r.violate("C18|Sequence::validate|rejects-valid", "sequence of valid candles rejected", || json!({}));
		}
		let mut seq2 = seq.clone();
		let j = rng.below(seq2.len() as u64) as usize;
		seq2[j].low = (seq2[j].high as f64 * 2.0) as V;
		if Sequence::validate(&seq2) {
			r.violate("C18|Sequence::validate|accepts-invalid", "sequence with an invalid candle accepted", || json!({"index": j}));
		}
		let vals: Vec<V> = seq.iter().map(|c| c.close).collect();
		let mut vals2 = vals.clone();
		vals2[j] = if rng.chance(0.5) { V::NAN } else { V::INFINITY };
		if !Sequence::validate(&vals) || Sequence::validate(&vals2) {
			r.violate("C18|Sequence::validate|values", "value-sequence validation wrong", || json!({"index": j}));
		}
		r.cell("Sequence::validate");
		// aggregation by + : associativity
		for (wi, w) in cs.windows(3).step_by(3).enumerate() {
			let (mut a, mut b, mut c) = (w[0], w[1], w[2]);
			// candles without volume (NaN) in every position pattern: NaN is absorbing, on either side
			let pat = wi % 8;
			if pat & 1 != 0 && wi % 3 == 0 {
				a.volume = V::NAN;
			}
			if pat & 2 != 0 && wi % 3 != 1 {
				b.volume = V::NAN;
			}
			if pat & 4 != 0 && wi % 3 == 2 {
				c.volume = V::NAN;
			}
			// the all-zero candle (Candle::default()) is an ordinary operand of +, in any position
			match wi % 11 {
				3 => a = Candle::default(),
				5 => b = Candle::default(),
				7 => c = Candle::default(),
				_ => {}
			}
			let any_nan = a.volume.is_nan() || b.volume.is_nan() || c.volume.is_nan();
			let l = (a + b) + c;
			let rr = a + (b + c);
			r.eval(1);
			let ohlc_same = biteq(l.open, rr.open) && biteq(l.high, rr.high) && biteq(l.low, rr.low) && biteq(l.close, rr.close);
			let vs = (a.volume as f64).abs() + (b.volume as f64).abs() + (c.volume as f64).abs();
			let vol_close = if any_nan { l.volume.is_nan() && rr.volume.is_nan() } else { ((l.volume as f64) - (rr.volume as f64)).abs() <= 4.0 * EPS * vs };
			if any_nan {
				r.cell("add:associativity:with-volume-less-candles");
			}
			if !ohlc_same || !vol_close {
				r.violate("C18|add|not-associative", "(a+b)+c != a+(b+c)", || json!({"a": cj(&a), "b": cj(&b), "c": cj(&c)}));
			}
			if class == 3 && !any_nan && !biteq(l.volume, rr.volume) {
				r.violate("C18|add|grid-volume-not-exact", "grid volumes must sum exactly", || json!({"a": cj(&a), "b": cj(&b), "c": cj(&c)}));
			}
			// meaning of +
			let want_h = a.high.max(b.high);
			let want_l = a.low.min(b.low);
			let ab = a + b;
			if !(biteq(ab.open, a.open) && biteq(ab.high, want_h) && biteq(ab.low, want_l) && biteq(ab.close, b.close) && biteq(ab.volume, a.volume + b.volume)) {
				r.violate("C18|add|formula", "a+b is not (first open, max high, min low, last close, summed volume)", || json!({"a": cj(&a), "b": cj(&b)}));
			}
			// tuple rhs
			let abt = a + (b.open, b.high, b.low, b.close, b.volume);
			if abt != ab {
				r.violate("C18|add|tuple-rhs", "Candle + tuple differs from Candle + Candle", || json!({}));
			}
		}
		r.cell("add:associativity");
	}
}

fn source_text(ctx: &Ctx, r: &mut Report) {
	let names: [(&str, Source); 9] = [
		("close", Source::Close),
		("open", Source::Open),
		("high", Source::High),
		("low", Source::Low),
		("hl2", Source::HL2),
		("tp", Source::TP),
		("hlc3", Source::TP),
		("volume", Source::Volume),
		("volumed_price", Source::VolumedPrice),
	];
	for s in SOURCES {
		r.eval(1);
		let a: &'static str = s.into();
		let b: String = s.into();
		if a != b {
			r.violate("C18|Source|str-vs-string", "&str and String forms differ", || json!({"source": format!("{s:?}")}));
		}
		for parsed in [Source::from_str(a), Source::try_from(a), Source::try_from(b.clone())] {
			match parsed {
				Ok(p) if p == s => {}
				_ => r.violate("C18|Source|roundtrip", "text form does not parse back to the same source", || json!({"source": format!("{s:?}"), "text": a})),
			}
		}
	}
	r.cell("Source:roundtrip-all-8");
	let mut rng = Rng::new(ctx.seed ^ 0x50);
	// accepted: documented names modulo ASCII case and surrounding whitespace
	for (name, want) in names {
		for variant in 0..40 {
			r.eval(1);
			r.case_named(name, &[183, variant as u64]);
			let mut t: String = name.chars().map(|ch| if rng.chance(0.5) { ch.to_ascii_uppercase() } else { ch }).collect();
			let ws = [" ", "\t", "\n", "  ", ""];
			if variant % 2 == 1 {
				t = format!("{}{}{}", rng.pick(&ws), t, rng.pick(&ws));
			}
			match guard(|| Source::from_str(&t)) {
				Ok(Ok(p)) if p == want => {}
				Ok(_) => r.violate("C18|Source|rejects-documented-name", "documented name (any ASCII case, surrounding whitespace) not accepted", || json!({"text": t})),
				Err(p) => r.violate(&format!("C18|Source|panic:{}", p.class()), &p.msg, || json!({"text": t})),
			}
		}
	}
	r.cell("Source:case+whitespace");
	// everything else: Err, never a panic
	let mut bad: Vec<String> = vec!["".into(), " ".into(), "clos".into(), "closee".into(), "c lose".into(), "tp3".into(), "hl".into(), "hlc".into(), "ohlc4".into(), "volumed price".into(), "volumed-price".into(), "volumedprice".into(), "0".into(), "\0".into(), "close\0".into(), "ｃｌｏｓｅ".into(), "clöse".into(), "HIGHLOW".into(), "vol".into(), "typical".into(), "Close,".into(), "\u{212A}".into()];
	for _ in 0..ctx.pick(3000, 60000) {
		let len = rng.below(12) as usize;
		let s: String = (0..len)
			.map(|_| match rng.below(5) {
				0 => char::from_u32(rng.below(0x2FF) as u32).unwrap_or('x'),
				1 => *rng.pick(&['c', 'l', 'o', 's', 'e', 'h', 'i', 'g', 'w', 't', 'p', '2', '3', '_', 'v', 'u', 'm', 'd', 'r', 'n']),
				2 => char::from_u32(0x4E00 + rng.below(500) as u32).unwrap_or('x'),
				3 => *rng.pick(&[' ', '\t', '-', '+', '.', '\0']),
				_ => (b'a' + rng.below(26) as u8) as char,
			})
			.collect();
		bad.push(s);
	}
	let accepted: Vec<&str> = names.iter().map(|x| x.0).collect();
	for t in bad {
		r.eval(1);
		r.case_named(&t, &[181]);
		let canon = t.trim().to_ascii_lowercase();
		let is_name = accepted.contains(&canon.as_str());
		match guard(|| Source::from_str(&t)) {
			Ok(Ok(_)) if is_name => {}
			Ok(Err(_)) if !is_name => {}
			Ok(Ok(p)) => r.violate("C18|Source|accepts-other-text", "text that is not a documented name parsed as a source", || json!({"text": t, "parsed": format!("{p:?}")})),
			Ok(Err(_)) => r.violate("C18|Source|rejects-documented-name", "documented name rejected", || json!({"text": t})),
			Err(p) => r.violate(&format!("C18|Source|panic:{}", p.class()), &p.msg, || json!({"text": t})),
		}
	}
	r.cell("Source:arbitrary-text-rejected");
}

pub const MA_KINDS: [&str; 15] = ["sma", "wma", "hma", "rma", "ema", "dma", "dema", "tma", "tema", "wsma", "smm", "swma", "trima", "linreg", "vidya"];

/// (kind name as used by FromStr, serde key)
pub fn ma_serde_key(kind: &str) -> &str {
	if kind == "linreg" {
		"lin_reg"
	} else {
		kind
	}
}

fn ma_text(ctx: &Ctx, r: &mut Report) {
	use yata::core::MovingAverageConstructor;
	// full grid: 15 kinds x all values of u8 (and a spread for wider types)
	let lens: Vec<u64> = if P::MAX as u64 == 255 { (0..=255).collect() } else { (0..=300).chain([1000, 65534, 65535, P::MAX as u64 - 1, P::MAX as u64]).filter(|x| *x <= P::MAX as u64).collect() };
	for (ki, kind) in MA_KINDS.iter().enumerate() {
		for &n in &lens {
			r.eval(1);
			r.case(&[182, ki as u64, n]);
			let t = format!("{kind}-{n}");
			match guard(|| MA::from_str(&t)) {
				Ok(Ok(ma)) => {
					let ser = serde_json::to_value(ma).unwrap_or_default();
					let key = ma_serde_key(kind);
					let ok = ser.get(key).and_then(|x| x.as_u64()) == Some(n) && ma.ma_period() as u64 == n && ma.ma_type() as usize == [0usize, 1, 2, 3, 4, 5, 7, 6, 8, 9, 10, 11, 12, 13, 14][ki];
					if !ok {
						r.violate("C18|MA|parse-wrong-value", "'<kind>-<n>' did not parse to that kind with that length", || json!({"text": t, "parsed": format!("{ma:?}")}));
					}
				}
				Ok(Err(_)) => r.violate("C18|MA|rejects-valid-form", "'<kind>-<n>' rejected", || json!({"text": t})),
				Err(p) => r.violate(&format!("C18|MA|panic:{}", p.class()), &p.msg, || json!({"text": t})),
			}
		}
	}
	r.cell("MA:15-kinds-x-all-lengths");
	let mut rng = Rng::new(ctx.seed ^ 0x77);
	let over = (P::MAX as u128 + 1).to_string();
	let mut bad: Vec<String> = vec!["".into(), "-".into(), "sma".into(), "sma-".into(), "-5".into(), "sma5".into(), "sma--5".into(), "sma-5-".into(), "sma-5-5".into(), "SMA-5".into(), "Sma-5".into(), "lin_reg-4".into(), "linReg-4".into(), "sma -5".into(), "sma- 5".into(), " sma-5".into(), "sma-5 ".into(), "sma-5.0".into(), "sma-0x5".into(), "sma-five".into(), "sma--1".into(), "sma-1e1".into(), "sma_5".into(), "kama-5".into(), "vwma-5".into(), "conv-5".into(), "ma-5".into(), "sma\0-5".into(), "sma-5\0".into(), "sma-٥".into(), "sma-５".into(), format!("sma-{over}"), format!("ema-{over}"), "sma-99999999999999999999999999".into(), "sma-340282366920938463463374607431768211456".into()];
	if P::MAX as u64 == 255 {
		bad.extend(["sma-256".into(), "ema-300".into(), "wma-65536".into(), "hma-4294967296".into(), "vidya-18446744073709551616".into()]);
	}
	for _ in 0..ctx.pick(3000, 60000) {
		let len = rng.below(14) as usize;
		let s: String = (0..len)
			.map(|_| match rng.below(6) {
				0 => *rng.pick(&['-', '-', '+', ' ', '.', '_']),
				1 => (b'0' + rng.below(10) as u8) as char,
				2 => *rng.pick(&['s', 'm', 'a', 'e', 'w', 'h', 'r', 'd', 't', 'l', 'i', 'n', 'g', 'v', 'y']),
				3 => char::from_u32(rng.below(0x3000) as u32).unwrap_or('x'),
				_ => (b'a' + rng.below(26) as u8) as char,
			})
			.collect();
		bad.push(s);
		// near misses: valid kind, junk length
		let k = *rng.pick(&MA_KINDS);
		let junk = match rng.below(5) {
			0 => format!("{k}-{}{}", rng.below(300), rng.pick(&["a", " ", "-", ".", "e3"])),
			1 => format!("{k}-{}", rng.u64() as u128 * 977),
			2 => format!("{}-{}", k.to_uppercase(), rng.below(200)),
			3 => format!("{k}{}", rng.below(200)),
			_ => format!("{k}--{}", rng.below(200)),
		};
		bad.push(junk);
	}
	for t in bad {
		r.eval(1);
		r.case_named(&t, &[181]);
		// the accepted language: kind '-' [+]digits with value <= PeriodType::MAX
		let is_valid = match t.split_once('-') {
			Some((k, n)) => {
				MA_KINDS.contains(&k) && {
					let d = n.strip_prefix('+').unwrap_or(n);
					!d.is_empty() && d.bytes().all(|b| b.is_ascii_digit()) && d.trim_start_matches('0').len() <= 20 && d.parse::<u128>().map_or(false, |x| x <= P::MAX as u128)
				}
			}
			None => false,
		};
		match guard(|| MA::from_str(&t)) {
			Ok(Ok(_)) if is_valid => {}
			Ok(Err(_)) if !is_valid => {}
			Ok(Ok(ma)) => {
				let class = if t.split_once('-').map_or(false, |(k, n)| MA_KINDS.contains(&k) && n.bytes().all(|b| b.is_ascii_digit())) { "length-out-of-range" } else { "other-text" };
				r.violate(&format!("C18|MA|accepts-{class}"), "text outside '<kind>-<n>' (n within PeriodType) parsed as a moving average", || json!({"text": t, "parsed": format!("{ma:?}")}))
			}
			Ok(Err(_)) => r.violate("C18|MA|rejects-valid-form", "valid '<kind>-<n>' rejected", || json!({"text": t})),
			Err(p) => r.violate(&format!("C18|MA|panic:{}", p.class()), &p.msg, || json!({"text": t})),
		}
	}
	r.cell("MA:arbitrary-text-rejected");
}

pub fn run(ctx: &Ctx, r: &mut Report) {
	special_product(ctx, r);
	random_candles(ctx, r);
	if ctx.mine(1) {
		source_text(ctx, r);
	}
	if ctx.mine(2) {
		ma_text(ctx, r);
	}
	if ctx.mine(0) {
		let c = gen::candles(0, ctx.seed, 3, 5)[2];
		r.sample(|| json!({"candle": cj(&c), "tp": fj(c.tp() as f64), "clv": fj(c.clv() as f64), "tr_close(prev=1.5*high)": fj(c.tr_close((c.high as f64 * 1.5) as V) as f64), "validate": c.validate()}));
		r.sample(|| json!({"text": "vidya-254", "parsed": format!("{:?}", MA::from_str("vidya-254"))}));
	}
}
