//! C09 — streaming, batch and chunked evaluation agree; clones are independent; peek = last output.
use crate::gen;
use crate::reg::{self, res_bits, In, MDesc, Out, Par, DI};
use crate::rep::{guard, Report};
use crate::rng::Rng;
use crate::work::{lengths, params_for, show_ins, stream_for};
use crate::{Ctx, P, V};
use serde_json::{json, Value};
use yata::core::{Candle, IndicatorResult};
use yata::helpers::Buffered;

fn chunks_for(rng: &mut Rng, total: usize) -> Vec<usize> {
	let mut v = Vec::new();
	let mut left = total;
	while left > 0 {
		let c = match rng.below(6) {
			0 => 0,
			1 => 1,
			2 => rng.below(4) as usize,
			3 => rng.below(40) as usize,
			_ => rng.below(total as u64 / 2 + 2) as usize,
		};
		let c = c.min(left);
		v.push(c);
		left -= c;
		if v.len() > 200 {
			break;
		}
	}
	v
}

fn reference(m: &MDesc, par: &Par, init: &In, xs: &[In], feed_init_once: bool) -> Option<Vec<Out>> {
	let mut inst = (m.ctor)(par, init).ok()?;
	if feed_init_once {
		inst.next(init);
	}
	Some(xs.iter().map(|x| inst.next(x)).collect())
}

fn check_method(m: &MDesc, len: u64, class: usize, seed: u64, nchunkings: usize, r: &mut Report) {
	let mut rng = Rng::new(seed ^ len << 20 ^ class as u64);
	let par = params_for(m, len, &mut rng);
	let n_steps = 300usize.min(80 + 3 * len as usize);
	let mut nonfinite = false;
	let mut xs = stream_for(m, class, seed, n_steps, len as usize);
	// every fifth case of the methods that do not assert finiteness carries a few NaN / infinite inputs: the batch APIs must
	// still do exactly what element-wise next does (they are not entitled to validate the sequence first)
	if seed % 5 == 0 && matches!(m.name, "Past" | "EMA" | "DMA" | "TMA" | "DEMA" | "TEMA" | "RMA" | "WSMA" | "SMA" | "WMA" | "Momentum" | "Derivative" | "Integral" | "TRIMA" | "SWMA") {
		for _ in 0..3 {
			let j = 1 + rng.below(xs.len() as u64 - 1) as usize;
			if let In::V(v) = &mut xs[j] {
				*v = *rng.pick(&[V::NAN, V::INFINITY, V::NEG_INFINITY]);
			}
		}
		r.cell("stream:with-non-finite-inputs");
		nonfinite = true;
	}
	let init = xs[0].clone();
	let case = |what: &str| json!({"method": m.name, "params": par.show(), "stream_class": class, "seed": seed, "len": len, "what": what, "first_inputs": show_ins(&xs[..xs.len().min(12)])});
	let res = guard(|| {
		let r0 = reference(m, &par, &init, &xs, false);
		let r2 = reference(m, &par, &init, &xs, true);
		(r0, r2)
	});
	r.case_named(m.name, &[9, reg::json_hash(&par.show()), reg::ins_hash(&xs)]);
	let (r0, r2) = match res {
		Ok((Some(a), Some(b))) => (a, b),
		Ok(_) => return, // constructor rejected: not a C09 matter
		Err(_) => return, // panics on valid streams are C10's concern
	};
	r.eval(xs.len() as u64);
	// determinism: two identically built instances
	if let Some(again) = reference(m, &par, &init, &xs, false) {
		if again.iter().zip(r0.iter()).any(|(a, b)| !a.same(b)) {
			r.violate(&format!("C09|{}|not-deterministic", m.name), "two identically built instances fed identical input differ", || case("determinism"));
		}
	}
	// batch APIs under several chunkings
	for ci in 0..nchunkings {
		let chunks = chunks_for(&mut rng, xs.len());
		let b = guard(|| (m.batch)(&par, &init, &xs, &chunks));
		let batches = match b {
			Ok(b) => b,
			Err(p) => {
				r.violate(&format!("C09|{}|batch-api-panic:{}", m.name, p.class()), &p.msg, || case("batch apis"));
				return;
			}
		};
		for bt in batches {
			if ci > 0 && !bt.api.contains("chunked") {
				continue;
			}
			r.eval(bt.out.len() as u64);
			let rf = match bt.reference {
				2 => &r2,
				_ => &r0,
			};
			let key = format!("C09|{}|{}", m.name, bt.api);
			if let Some(e) = &bt.error {
				r.violate(&format!("{key}|protocol"), e, || case(bt.api));
			}
			if bt.out.len() != xs.len() {
				r.violate(&format!("{key}|output-count"), "not exactly one output per input", || json!({"case": case(bt.api), "outputs": bt.out.len(), "inputs": xs.len(), "chunks": chunks}));
				continue;
			}
			if let Some(i) = (0..xs.len()).find(|&i| if nonfinite { !bt.out[i].same_num(&rf[i]) } else { !bt.out[i].same(&rf[i]) }) {
				r.violate(&format!("{key}|differs-from-next"), "batch/wrapper API differs from element-wise next", || json!({"case": case(bt.api), "step": i, "got": bt.out[i].show(), "expected": rf[i].show(), "chunks": chunks}));
			}
			r.cell(&format!("api:{}", bt.api));
		}
	}
	// peek after every step
	if m.peek {
		if let Ok(mut inst) = (m.ctor)(&par, &init) {
			let mut bad = None;
			for (i, x) in xs.iter().enumerate() {
				let o = inst.next(x);
				let p = inst.peek().unwrap();
				if !(if nonfinite { p.same_num(&o) } else { p.same(&o) }) && bad.is_none() {
					bad = Some((i, o, p));
				}
			}
			r.eval(xs.len() as u64);
			if let Some((i, o, p)) = bad {
				let cls = if len == 1 { "len=1" } else { "len>1" };
				r.violate(&format!("C09|{}|peek-differs-from-last-output|{cls}", m.name), "peek() is not the value most recently produced", || json!({"case": case("peek"), "step": i, "next": o.show(), "peek": p.show()}));
			}
			r.cell("peek");
		}
	}
	// clone at points k, diverge the original
	let ks: Vec<usize> = {
		let mut v = vec![0usize, 1, len as usize, len as usize + 1, (2 * len as usize).min(xs.len() - 2)];
		for _ in 0..4 {
			v.push(rng.below((xs.len() - 1) as u64) as usize);
		}
		v.retain(|k| *k < xs.len() - 1);
		v
	};
	for k in ks {
		let res = guard(|| {
			let mut orig = (m.ctor)(&par, &init).ok()?;
			for x in &xs[..k] {
				orig.next(x);
			}
			let mut cl = orig.bclone();
			// diverge the original with a permuted/other stream
			let other = stream_for(m, (class + 3) % 10, seed ^ 0xDEAD, 40, len as usize);
			for x in &other {
				orig.next(x);
			}
			let got: Vec<Out> = xs[k..].iter().map(|x| cl.next(x)).collect();
			Some(got)
		});
		match res {
			Ok(Some(got)) => {
				r.eval(got.len() as u64);
				if let Some(i) = (0..got.len()).find(|&i| if nonfinite { !got[i].same_num(&r0[k + i]) } else { !got[i].same(&r0[k + i]) }) {
					r.violate(&format!("C09|{}|clone-not-independent", m.name), "a clone does not continue like an instance that saw the same history", || json!({"case": case("clone"), "clone_point": k, "step": k + i}));
				}
				r.cell("clone");
			}
			Ok(None) => {}
			Err(_) => {}
		}
	}
}

/// Buffered::get of SMA / TRIMA / Past against the model window
fn check_buffered(ctx: &Ctx, r: &mut Report) {
	use yata::core::Method;
	use yata::methods::{Past, SMA, TRIMA};
	let lens: [u64; 8] = [1, 2, 3, 7, 14, 50, 127, 254];
	for (li, &n) in lens.iter().enumerate() {
		if !ctx.mine(li as u64) {
			continue;
		}
		let xs = gen::values((li + ctx.seed as usize) % 8, ctx.seed ^ n, 3 * n as usize + 20, n as usize);
		let init = xs[0] as V;
		let mut sma = SMA::new(n as P, &init).unwrap();
		let mut past = Past::<V>::new(n as P, &init).unwrap();
		let mut trima = TRIMA::new(n as P, &init).unwrap();
		let mut sma_ref = SMA::new(n as P, &init).unwrap();
		let mut hist: Vec<V> = vec![];
		let mut sma_out: Vec<V> = vec![];
		for (i, &x) in xs.iter().enumerate() {
			let x = x as V;
			sma.next(&x);
			past.next(&x);
			trima.next(&x);
			sma_out.push(sma_ref.next(&x));
			hist.push(x);
			let at = |h: &Vec<V>, j: usize, dflt: V| if j < h.len() { h[h.len() - 1 - j] } else { dflt };
			// indices beyond the PeriodType's range must be None as well (no truncation of the usize index)
			for j in [0usize, 1, n as usize / 2, n as usize - 1, n as usize, n as usize + 1, 1000, 255, 256, 257, 256 + n as usize / 2, 65536, 65536 + n as usize - 1, usize::MAX] {
				r.eval(1);
				let want = if j < n as usize { Some(at(&hist, j, init)) } else { None };
				let g = Buffered::get(&sma, j);
				if g.map(V::to_bits) != want.map(V::to_bits) {
					r.violate("C09|SMA|Buffered::get", "SMA::get(i) is not the i-th newest input", || json!({"n": n, "step": i, "i": j}));
				}
				let g = Buffered::get(&past, j);
				if g.map(V::to_bits) != want.map(V::to_bits) {
					r.violate("C09|Past|Buffered::get", "Past::get(i) is not the i-th newest input", || json!({"n": n, "step": i, "i": j}));
				}
				let want_t = if j < n as usize { Some(at(&sma_out, j, init)) } else { None };
				let g = Buffered::get(&trima, j);
				if g.map(V::to_bits) != want_t.map(V::to_bits) {
					r.violate("C09|TRIMA|Buffered::get", "TRIMA::get(i) is not the i-th newest inner SMA output", || json!({"n": n, "step": i, "i": j}));
				}
				let by_ref = Buffered::get(&&sma, j);
				if by_ref.map(V::to_bits) != Buffered::get(&sma, j).map(V::to_bits) {
					r.violate("C09|&T|Buffered::get", "Buffered for &T differs", || json!({"n": n}));
				}
			}
		}
		r.cell("Buffered::get");
	}
}

pub fn indicator_configs(d: &reg::IDesc, count: usize, seed: u64) -> Vec<Box<dyn reg::DC>> {
	crate::icfg::configs(d, count, seed)
}

fn check_indicator(d: &reg::IDesc, cfg: &dyn reg::DC, cs: &[Candle], seed: u64, nchunkings: usize, r: &mut Report) {
	let cfgv = cfg.ser().unwrap_or(Value::Null);
	let case = |what: &str| json!({"indicator": d.name, "config": cfgv, "what": what, "seed": seed});
	let rf: Vec<IndicatorResult> = match guard(|| {
		let mut i = cfg.init(&cs[0]).ok()?;
		Some(cs.iter().map(|c| i.next(c)).collect::<Vec<_>>())
	}) {
		Ok(Some(v)) => v,
		_ => return,
	};
	r.eval(cs.len() as u64);
	r.case_named(d.name, &[91, reg::json_hash(&cfgv), reg::candles_hash(cs)]);
	let eq = |a: &[IndicatorResult], b: &[IndicatorResult]| a.len() == b.len() && a.iter().zip(b.iter()).all(|(x, y)| res_bits(x) == res_bits(y));
	let mut rng = Rng::new(seed);
	let leaked: &'static [Candle] = Box::leak(cs.to_vec().into_boxed_slice());
	let apis: Vec<(&str, Result<Option<Vec<IndicatorResult>>, crate::rep::Panic>)> = vec![
		("IndicatorConfig::over", guard(|| cfg.over(cs).ok())),
		("IndicatorInstance::over", guard(|| cfg.init(&cs[0]).ok().map(|mut i| i.over(cs)))),
		("IndicatorConfig::init_fn", guard(|| cfg.init_fn(&leaked[0]).ok().map(|mut f| leaked.iter().map(|c| f(c)).collect()))),
		("IndicatorInstance::into_fn", guard(|| cfg.init(&cs[0]).ok().map(|i| {
			let mut f = i.into_fn();
			leaked.iter().map(|c| f(c)).collect()
		}))),
		("IndicatorConfigDyn::over", guard(|| cfg.as_dyn().over(&cs.to_vec()).ok())),
		("IndicatorInstanceDyn::over", guard(|| cfg.as_dyn().init(&cs[0]).ok().map(|mut i| i.over(&cs.to_vec())))),
		("IndicatorInstanceDyn::next", guard(|| cfg.as_dyn().init(&cs[0]).ok().map(|mut i| cs.iter().map(|c| i.next(c)).collect()))),
	];
	for (api, res) in apis {
		match res {
			Ok(Some(v)) => {
				r.eval(v.len() as u64);
				if v.len() != cs.len() {
					r.violate(&format!("C09|{}|{api}|output-count", d.name), "not exactly one result per candle", || case(api));
				} else if !eq(&v, &rf) {
					r.violate(&format!("C09|{}|{api}|differs-from-next", d.name), "batch API differs from element-wise next", || case(api));
				}
				r.cell(&format!("api:{api}"));
			}
			Ok(None) => r.violate(&format!("C09|{}|{api}|error-where-init-succeeds", d.name), "batch API fails although init succeeds", || case(api)),
			Err(p) => r.violate(&format!("C09|{}|{api}|panic:{}", d.name, p.class()), &p.msg, || case(api)),
		}
	}
	// empty input
	if let Ok(Ok(v)) = guard(|| cfg.over(&[])) {
		if !v.is_empty() {
			r.violate(&format!("C09|{}|over(empty)", d.name), "over on an empty input produced results", || case("empty"));
		}
	}
	// chunked instance over
	for _ in 0..nchunkings {
		let chunks = chunks_for(&mut rng, cs.len());
		let res = guard(|| {
			let mut i = cfg.init(&cs[0]).ok()?;
			let mut out = Vec::new();
			let mut pos = 0;
			for &c in &chunks {
				let end = (pos + c).min(cs.len());
				out.extend(i.over(&cs[pos..end]));
				pos = end;
			}
			out.extend(i.over(&cs[pos..]));
			Some(out)
		});
		if let Ok(Some(v)) = res {
			r.eval(v.len() as u64);
			if !eq(&v, &rf) {
				r.violate(&format!("C09|{}|over(chunked)|differs-from-next", d.name), "chunked evaluation differs", || json!({"case": case("chunked"), "chunks": chunks}));
			}
			r.cell("api:IndicatorInstance::over(chunked)");
		}
	}
	// chunked evaluation through the dynamic-dispatch API, `over` on chunks interleaved with single `next` calls
	for _ in 0..nchunkings {
		let chunks = chunks_for(&mut rng, cs.len());
		let res = guard(|| {
			let mut i = cfg.as_dyn().init(&cs[0]).ok()?;
			let mut out = Vec::new();
			let mut pos = 0;
			for (ci, &c) in chunks.iter().enumerate() {
				let end = (pos + c).min(cs.len());
				if ci % 3 == 2 {
					for x in &cs[pos..end] {
						out.push(i.next(x));
					}
				} else {
					out.extend(i.over(&cs[pos..end].to_vec()));
				}
				pos = end;
			}
			out.extend(i.over(&cs[pos..].to_vec()));
			Some(out)
		});
		match res {
			Ok(Some(v)) => {
				r.eval(v.len() as u64);
				if !eq(&v, &rf) {
					r.violate(&format!("C09|{}|IndicatorInstanceDyn::over(chunked)|differs-from-next", d.name), "chunked evaluation through the dyn API differs", || json!({"case": case("dyn-chunked"), "chunks": chunks}));
				}
				r.cell("api:IndicatorInstanceDyn::over(chunked,mixed-with-next)");
			}
			Ok(None) => {}
			Err(p) => r.violate(&format!("C09|{}|IndicatorInstanceDyn::over(chunked)|panic:{}", d.name, p.class()), &p.msg, || case("dyn-chunked")),
		}
	}
	// clones
	for k in [0usize, 1, 5, cs.len() / 2, cs.len() - 2] {
		let res = guard(|| {
			let mut o = cfg.init(&cs[0]).ok()?;
			for c in &cs[..k] {
				o.next(c);
			}
			let mut cl: Box<dyn DI> = o.bclone();
			for c in cs.iter().rev().take(30) {
				o.next(c);
			}
			Some(cs[k..].iter().map(|c| cl.next(c)).collect::<Vec<_>>())
		});
		if let Ok(Some(v)) = res {
			r.eval(v.len() as u64);
			if !eq(&v, &rf[k..]) {
				r.violate(&format!("C09|{}|clone-not-independent", d.name), "a cloned instance does not continue like the original would have", || json!({"case": case("clone"), "clone_point": k}));
			}
			r.cell("clone:indicator");
		}
	}
}

pub fn run(ctx: &Ctx, r: &mut Report) {
	let ms = reg::methods();
	let nlen = ctx.pick(24, 40);
	let nch = ctx.pick(12, 40);
	let mut k = 0u64;
	for m in &ms {
		for len in lengths(m, nlen, ctx.seed) {
			k += 1;
			if !ctx.mine(k) {
				continue;
			}
			let class = ((k + ctx.seed) % 8) as usize;
			check_method(m, len, class, ctx.seed ^ k << 16, nch, r);
			r.cell(&format!("method:{}", m.name));
		}
	}
	check_buffered(ctx, r);
	for d in reg::indicators() {
		let cfgs = indicator_configs(&d, ctx.pick(16, 40), ctx.seed);
		for (ci, cfg) in cfgs.iter().enumerate() {
			k += 1;
			if !ctx.mine(k) {
				continue;
			}
			let cs = gen::candles(((k + ctx.seed) % 5) as usize, ctx.seed ^ k << 8, ctx.pick(250, 600), 14);
			check_indicator(&d, cfg.as_ref(), &cs, ctx.seed ^ k, ctx.pick(3, 12), r);
			r.cell(&format!("indicator:{}", d.name));
			if ci == 0 && d.name == "MACD" {
				r.sample(|| json!({"indicator": d.name, "config": cfg.ser().unwrap_or_default(), "candles": cs.len(), "apis": "over/init_fn/into_fn/dyn over/chunked/clone vs next"}));
			}
		}
	}
	if ctx.mine(0) {
		r.sample(|| json!({"method": "WMA", "len": 7, "apis": "over, Sequence::call, over(chunked), new_over, apply, Sequence::apply(chunked), new_apply, into_fn, new_fn, with_history, with_last_value, peek, clone", "oracle": "bit equality with element-wise next"}));
	}
}
