//! C02 / C03 — methods equal their from-scratch definition (C02: sliding-window methods,
//! C03: recursive methods follow their recurrences). Two-sided comparison against `refm` within the error model.
use crate::gen;
use crate::refm::make_ref;
use crate::reg::{self, In, MDesc, Out, Par, ParKind};
use crate::rep::{fj, guard, Report};
use crate::rng::Rng;
use crate::work::{all_lengths, params_for, show_ins, stream_for};
use crate::{Ctx, P, V};
use serde_json::{json, Value};

pub const C02_METHODS: [&str; 19] = ["SMA", "WMA", "SWMA", "TRIMA", "HMA", "LinReg", "Conv", "VWMA", "Integral", "Derivative", "Momentum", "RateOfChange", "Past", "StDev", "MeanAbsDev", "MedianAbsDev", "CCI", "LinearVolatility", "ADI"];
pub const C03_METHODS: [&str; 13] = ["EMA", "DMA", "TMA", "DEMA", "TEMA", "RMA", "WSMA", "TSI", "Vidya", "TR", "Integral", "ADI", "HeikinAshi"];

pub struct StreamResult {
	pub steps: u64,
	pub exempt: u64,
	pub max_used: f64,
	pub failed: bool,
}

/// runs the real method and its reference over xs; reports the first value outside the allowance
pub fn check_stream(prop: &str, m: &MDesc, par: &Par, xs: &[In], tag: &str, seed: u64, class: usize, r: &mut Report) -> Option<StreamResult> {
	let init = xs[0].clone();
	let mut rf = make_ref(m.name, par, &init)?;
	let mut inst = match guard(|| (m.ctor)(par, &init)) {
		Ok(Ok(i)) => i,
		_ => return None,
	};
	let mut res = StreamResult { steps: 0, exempt: 0, max_used: 0.0, failed: false };
	r.case_named(m.name, &[crate::reg::json_hash(&par.show()), crate::reg::ins_hash(xs)]);
	let len = par.len();
	// "init-not-refed": the instance is built from xs[0] and the stream continues with xs[1] (the construction value is
	// not fed again as the first input - what a seed taken from the wrong field of the first input hides behind)
	let skip_first = tag == "init-not-refed";
	for (i, x) in xs.iter().enumerate() {
		if skip_first && i == 0 {
			continue;
		}
		let out = match guard(|| inst.next(x)) {
			Ok(o) => o,
			Err(_) => return Some(res), // panics are C10's concern
		};
		let o = match out {
			Out::V(v) => v as f64,
			_ => return None,
		};
		let ap = rf.next(x, o);
		res.steps += 1;
		if ap.is_undefined() {
			res.exempt += 1;
			continue;
		}
		let used = ap.used(o);
		if used.is_finite() {
			res.max_used = res.max_used.max(used);
		}
		if !ap.contains(o) {
			let phase = if i < len { "warm-up" } else { "steady" };
			r.violate(&format!("{prop}|{}|value-outside-allowance", m.name), "output differs from the from-scratch definition by more than the rounding allowance", || {
				let from = i.saturating_sub(len + 3).max(i.saturating_sub(40));
				json!({"method": m.name, "params": par.show(), "len": len, "step": i, "phase": phase, "got": fj(o), "expected": fj(ap.v), "radius": fj(ap.e), "error/radius": fj(used),
					"stream_class": class, "seed": seed, "tag": tag, "steps": xs.len(), "recent_inputs": show_ins(&xs[from..=i]), "first_inputs": show_ins(&xs[..xs.len().min(6)])})
			});
			res.failed = true;
			break;
		}
	}
	r.sample_case(37, || json!({"method": m.name, "params": par.show(), "stream_class": gen::VALUE_CLASSES.get(class % 10), "tag": tag, "first_inputs": crate::work::show_ins(&xs[..xs.len().min(6)]), "steps_judged": res.steps, "steps_exempt(undefined)": res.exempt, "max |error|/radius": res.max_used, "verdict": if res.failed { "violated" } else { "held" }}));
	Some(res)
}

fn run_for(prop: &str, names: &[&str], ctx: &Ctx, r: &mut Report) {
	let steps = ctx.pick(600usize, 3000);
	let mut k = 0u64;
	for name in names {
		if *name == "HeikinAshi" {
			continue; // candle output: handled by heikin() below
		}
		let m = reg::method(name);
		let cumulative_only = prop == "C03" && (*name == "Integral" || *name == "ADI");
		let windowed_only = prop == "C02" && (*name == "Integral" || *name == "ADI");
		let mut lens: Vec<u64> = if m.par == ParKind::U { vec![1] } else { all_lengths(&m) };
		if cumulative_only {
			lens = vec![0];
		}
		if windowed_only {
			lens.retain(|l| *l > 0);
		}
		if *name == "TSI" {
			lens = (1..=254).collect();
		}
		let stratified: [u64; 24] = [1, 2, 3, 4, 5, 6, 7, 8, 9, 10, 14, 20, 26, 33, 50, 64, 100, 127, 128, 200, 250, 252, 253, 254];
		for len in lens {
			let all_classes = ctx.thorough || stratified.contains(&len);
			let ncl = if all_classes { 10 } else if prop == "C03" { 5 } else { 2 };
			for j in 0..ncl {
				k += 1;
				if !ctx.mine(k) {
					continue;
				}
				let class = if all_classes { j } else { (len as usize * 3 + j * 5 + ctx.seed as usize) % 10 };
				let seed = ctx.seed ^ k << 12;
				let mut rng = Rng::new(seed);
				let par = if cumulative_only { Par::L(0) } else { params_for(&m, len, &mut rng) };
				let xs = stream_for(&m, class, seed, steps.min(4 * len as usize + 350), len as usize);
				if let Some(res) = check_stream(prop, &m, &par, &xs, "sweep", seed, class, r) {
					r.eval(res.steps);
					r.count(&format!("exempt_steps:{name}"), res.exempt);
					r.count(&format!("steps:{name}"), res.steps);
					r.max(&format!("max error/radius {name}"), res.max_used);
					r.cell(&format!("{name}:class:{}", gen::VALUE_CLASSES[class % 10]));
					let lb = if len <= 8 { format!("{len}") } else if len <= 32 { "9-32".into() } else if len <= 128 { "33-128".into() } else { "129-254".into() };
					r.cell(&format!("{name}:len:{lb}"));
				}
				if k % 3 == 0 {
					if let Some(res) = check_stream(prop, &m, &par, &xs, "init-not-refed", seed, class, r) {
						r.eval(res.steps);
						r.cell(&format!("{name}:init-not-refed"));
					}
				}
			}
		}
	}
}

/// calibration against the numeric examples of the crate's own rustdoc (DESIGN §3.1); a mismatch is a harness error
fn calibrate(r: &mut Report) {
	use crate::refm::RefM;
	let cases: Vec<(&str, Par, f64, Vec<f64>, Vec<f64>)> = vec![
		("EMA", Par::L(3), 3.0, vec![3.0, 6.0], vec![3.0, 4.5]),
		("WMA", Par::L(3), 1.0, vec![1.0, 2.0], vec![1.0, 1.5]),
		("SMA", Par::L(4), 1.0, vec![1.0, 2.0, 3.0, 4.0, 5.0], vec![1.0, 1.25, 1.75, 2.5, 3.5]),
		("Momentum", Par::L(2), 1.0, vec![1.0, 2.0, 4.0], vec![0.0, 1.0, 3.0]),
		("Integral", Par::L(3), 1.0, vec![1.0, 2.0, 3.0, 4.0], vec![3.0, 4.0, 6.0, 9.0]),
		("SWMA", Par::L(4), 0.0, vec![6.0, 0.0, 0.0, 0.0, 0.0], vec![1.0, 2.0, 2.0, 1.0, 0.0]),
		("LinReg", Par::L(3), 0.0, vec![1.0, 2.0, 3.0, 4.0], vec![0.8333333333333334, 2.0, 3.0, 4.0]),
		("TRIMA", Par::L(2), 0.0, vec![4.0, 0.0, 0.0], vec![1.0, 2.0, 1.0]),
	];
	for (name, par, init, xs, want) in cases {
		let mut rf = make_ref(name, &par, &In::V(init as V)).unwrap();
		for (x, w) in xs.iter().zip(want.iter()) {
			let a = rf.next(&In::V(*x as V), *w);
			if (a.v - w).abs() > 1e-12 {
				r.inconclusive(&format!("calibration: reference {name} gives {} where the hand-computed value is {w}", a.v));
			}
		}
	}
	r.cell("calibration:hand-computed-examples");
}

/// HeikinAshi (C03): open/close recursion, high/low widening, volume passes through
fn heikin(ctx: &Ctx, r: &mut Report) {
	use crate::ap::{Ap, EPS};
	let m = reg::method("HeikinAshi");
	for k in 0..ctx.pick(80u64, 400) {
		if !ctx.mine(k) {
			continue;
		}
		let cs = gen::candles((k % 5) as usize, ctx.seed ^ k << 3, 400, 10);
		let Ok(Ok(mut inst)) = guard(|| (m.ctor)(&Par::U, &In::C(cs[0]))) else { continue };
		let ohlc4 = |c: &yata::core::Candle| (c.high as f64 + c.low as f64 + c.close as f64 + c.open as f64) * 0.25;
		let mut open = Ap::rounded(ohlc4(&cs[0]), 4.0);
		let mut mag: f64 = 0.0;
		for (i, c) in cs.iter().enumerate() {
			mag = mag.max(c.high as f64);
			let Ok(Out::C(o)) = guard(|| inst.next(&In::C(*c))) else { break };
			let close = Ap::rounded(ohlc4(c), 4.0);
			let exp_open = open;
			// contraction by 1/2: the radius stays a fixed number of roundings of the price scale
			let tol_open = Ap::new(exp_open.v, exp_open.e.min(64.0 * EPS * mag) + 8.0 * EPS * mag);
			let checks: [(&str, f64, Ap); 5] = [
				("open", o.open as f64, tol_open),
				("close", o.close as f64, close),
				("high", o.high as f64, Ap::exact(c.high as f64).max(tol_open)),
				("low", o.low as f64, Ap::exact(c.low as f64).min(tol_open)),
				("volume", o.volume as f64, Ap::exact(c.volume as f64)),
			];
			r.eval(5);
			for (what, got, exp) in checks {
				if !exp.contains(got) {
					r.violate(&format!("C03|HeikinAshi|{what}-outside-allowance"), "HeikinAshi output differs from its recursion", || json!({"step": i, "field": what, "got": fj(got), "expected": fj(exp.v), "radius": fj(exp.e), "candle": format!("{c:?}"), "seed": ctx.seed ^ k << 3, "class": k % 5}));
				}
			}
			open = Ap::new((exp_open.v + close.v) * 0.5, 0.5 * (exp_open.e + close.e) + EPS * mag);
			// re-synchronise on the implementation's open to keep the reference a one-step oracle as well
			if tol_open.contains(o.open as f64) {
				open = Ap::new((o.open as f64 + o.close as f64) * 0.5, 2.0 * EPS * mag);
			}
		}
		r.cell("HeikinAshi:recursion");
	}
}

fn replay(prop: &str, case: &Value, r: &mut Report) {
	let m = reg::method(case["method"].as_str().unwrap_or(""));
	let seed = case["seed"].as_u64().unwrap_or(0);
	let class = case["stream_class"].as_u64().unwrap_or(0) as usize;
	let len = case["len"].as_u64().unwrap_or(1);
	let steps = case["steps"].as_u64().unwrap_or(600) as usize;
	let mut rng = Rng::new(seed);
	let par = if (m.name == "Integral" || m.name == "ADI") && len == 0 { Par::L(0) } else { params_for(&m, len, &mut rng) };
	let xs = stream_for(&m, class, seed, steps, len as usize);
	check_stream(prop, &m, &par, &xs, "replay", seed, class, r);
}

pub fn run_c02(ctx: &Ctx, r: &mut Report) {
	if let Some(rp) = &ctx.replay {
		replay("C02", &rp["case"], r);
		return;
	}
	if ctx.mine(0) {
		calibrate(r);
		r.sample(|| json!({"method": "WMA", "len": 7, "oracle": "sum_{i<n} (n-i) x_{t-i} / (n(n+1)/2) from scratch (compensated), radius C*eps*M*(n+t+t^2/2n)", "classes": gen::VALUE_CLASSES}));
	}
	run_for("C02", &C02_METHODS, ctx, r);
}

pub fn run_c03(ctx: &Ctx, r: &mut Report) {
	if let Some(rp) = &ctx.replay {
		replay("C03", &rp["case"], r);
		return;
	}
	if ctx.mine(0) {
		calibrate(r);
		r.sample(|| json!({"method": "TEMA", "len": 9, "oracle": "3(E-EE)+EEE with E=EMA(2/(n+1)) run in f64, radius 10*C*eps*M*(n+1)/2"}));
	}
	run_for("C03", &C03_METHODS, ctx, r);
	heikin(ctx, r);
}
