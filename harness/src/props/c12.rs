//! C12 — documented value ranges and ordering invariants hold on every valid stream.
//! Invariants at the API boundary with a fixed tolerance (16 eps relative to the bound), no exemption:
//! they apply exactly in the regimes (flat stretches, zero volume) where the value oracle is silent.
use crate::ap::EPS;
use crate::errm::{out_scale, radius};
use crate::gen;
use crate::icfg;
use crate::reg::{self, Class, In, Out, Par, DC};
use crate::rep::{fj, guard, Report};
use crate::rng::Rng;
use crate::{Ctx, P, V};
use serde_json::{json, Value};
use yata::core::{Candle, IndicatorResult, OHLCV};

const TOL: f64 = 16.0 * EPS;

fn non_overshooting(kind: &str) -> bool {
	matches!(kind, "sma" | "wma" | "swma" | "trima" | "ema" | "dma" | "tma" | "rma" | "wsma" | "smm" | "vidya")
}
fn ma_kind(cfg: &Value, field: &str) -> String {
	cfg.get(field).and_then(Value::as_object).and_then(|m| m.keys().next().cloned()).unwrap_or_default()
}
fn max_period(cfg: &Value) -> usize {
	let mut m = 2usize;
	if let Value::Object(o) = cfg {
		for v in o.values() {
			match v {
				Value::Number(n) if n.is_u64() => m = m.max(n.as_u64().unwrap() as usize),
				Value::Object(mm) => {
					if let Some(p) = mm.values().next().and_then(Value::as_u64) {
						m = m.max(p as usize)
					}
				}
				_ => {}
			}
		}
	}
	m
}

struct Hist {
	cs: Vec<Candle>,
}

/// checks the invariants of one result; returns (invariant name, detail) of the first violated one
fn invariants(name: &str, cfg: &Value, res: &IndicatorResult, c: &Candle, h: &Hist, flat_inside: bool, t: f64) -> Vec<(String, String, f64)> {
	// allowance of an averaging stage whose output must stay inside the hull of its inputs (bound = 1)
	let ma_rad = |field: &str| -> f64 {
		let kind = ma_kind(cfg, field);
		let p = cfg.get(field).and_then(Value::as_object).and_then(|m| m.values().next().and_then(Value::as_u64)).unwrap_or(1) as f64;
		let class = match kind.as_str() {
			"wma" | "swma" => Class::Nested,
			"sma" | "trima" | "vidya" => Class::Accum,
			"smm" => Class::Select,
			_ => Class::Contraction,
		};
		radius(class, p, t, 1.0, 4.0)
	};
	let v: Vec<f64> = res.values().iter().map(|x| *x as f64).collect();
	let mut bad = Vec::new();
	let mut range = |slot: usize, lo: f64, hi: f64, what: &str, extra: f64| {
		if let Some(x) = v.get(slot) {
			if !(*x >= lo - TOL * lo.abs().max(1.0) - extra && *x <= hi + TOL * hi.abs().max(1.0) + extra) {
				let excess = if x.is_finite() { (lo - *x).max(*x - hi).max(0.0) } else { f64::INFINITY };
				bad.push((format!("value{slot}|outside[{lo},{hi}]"), format!("{what} = {x:e}"), excess));
			}
		}
	};
	match name {
		"Aroon" => {
			range(0, 0.0, 1.0, "aroon up", 0.0);
			range(1, 0.0, 1.0, "aroon down", 0.0);
		}
		"RelativeStrengthIndex" => {
			if non_overshooting(&ma_kind(cfg, "ma")) {
				range(0, 0.0, 1.0, "RSI", 0.0);
			}
		}
		"MoneyFlowIndex" => range(1, 0.0, 1.0, "MFI", 0.0),
		"StochasticOscillator" => {
			if non_overshooting(&ma_kind(cfg, "ma")) {
				range(0, 0.0, 1.0, "%K", ma_rad("ma"));
				if non_overshooting(&ma_kind(cfg, "signal")) {
					range(1, 0.0, 1.0, "%D", ma_rad("ma") + ma_rad("signal"));
				}
			}
		}
		"ChandeMomentumOscillator" => range(0, -1.0, 1.0, "CMO", 0.0),
		"ChaikinMoneyFlow" => {
			// defined only for a non-zero total volume in the window
			let n = cfg.get("size").and_then(Value::as_u64).unwrap_or(20) as usize;
			let from = h.cs.len().saturating_sub(n);
			let vol: f64 = h.cs[from..].iter().map(|c| c.volume as f64).sum::<f64>() + if h.cs.len() < n { h.cs[0].volume as f64 } else { 0.0 };
			if vol > 0.0 {
				range(0, -1.0, 1.0, "CMF", 0.0);
			}
		}
		"TrueStrengthIndex" => {
			range(0, -1.0, 1.0, "TSI", 0.0);
			range(1, -1.0, 1.0, "TSI signal line (EMA)", 0.0);
		}
		"SMIErgodicIndicator" => {
			range(0, -1.0, 1.0, "TSI", 0.0);
			if non_overshooting(&ma_kind(cfg, "signal")) {
				range(1, -1.0, 1.0, "signal line", ma_rad("signal"));
			}
		}
		_ => {}
	}
	let mut order = |what: &str, a: f64, b: f64| {
		// a >= b up to the tolerance
		let s = a.abs().max(b.abs());
		if !(a >= b - TOL * s) {
			bad.push((format!("order|{what}"), format!("{a:e} < {b:e}"), if s > 0.0 { (b - a) / s } else { f64::INFINITY }));
		}
	};
	match name {
		"BollingerBands" => {
			order("upper>=middle", v[0], v[1]);
			order("middle>=lower", v[1], v[2]);
		}
		"KeltnerChannel" => order("upper>=lower", v[1], v[2]),
		"Envelopes" => {
			if ma_kind(cfg, "ma") != "" && non_overshooting(&ma_kind(cfg, "ma")) {
				order("upper>=lower", v[0], v[1]);
			}
		}
		"PriceChannelStrategy" => {
			order("upper>=lower", v[0], v[1]);
			if cfg.get("sigma").and_then(Value::as_f64) == Some(1.0) {
				order("upper>=high", v[0], c.high as f64);
				order("low>=lower", c.low as f64, v[1]);
			}
		}
		"DonchianChannel" => {
			order("upper>=high", v[2], c.high as f64);
			order("low>=lower", c.low as f64, v[0]);
			order("upper>=middle", v[2], v[1]);
			order("middle>=lower", v[1], v[0]);
		}
		"IchimokuCloud" => {
			// tenkan / kijun are midpoints of channels that contain the current candle
			let lo = h.cs.iter().map(|c| c.low as f64).fold(f64::INFINITY, f64::min);
			let hi = h.cs.iter().map(|c| c.high as f64).fold(f64::NEG_INFINITY, f64::max);
			for (k, x) in v.iter().enumerate() {
				if !(*x >= lo - TOL * lo.abs() && *x <= hi + TOL * hi.abs()) {
					bad.push((format!("value{k}|outside-range-of-history"), format!("{x:e} not in [{lo:e},{hi:e}]"), f64::INFINITY));
				}
			}
		}
		"ParabolicSAR" => {
			let (sar, trend) = (v[0], v[1]);
			if !(trend == 1.0 || trend == -1.0 || trend == 0.0) {
				bad.push(("value1|trend-not-in{-1,0,1}".into(), format!("{trend}"), f64::INFINITY));
			}
			if trend > 0.0 && !(sar <= c.low as f64 + TOL * sar.abs()) {
				bad.push(("sar-above-low-in-up-trend".into(), format!("sar {sar:e} low {:e}", c.low), f64::INFINITY));
			}
			if trend < 0.0 && !(sar >= c.high as f64 - TOL * sar.abs()) {
				bad.push(("sar-below-high-in-down-trend".into(), format!("sar {sar:e} high {:e}", c.high), f64::INFINITY));
			}
		}
		_ => {}
	}
	// finiteness wherever the formula is defined
	let src = cfg.get("source").and_then(Value::as_str).unwrap_or("close");
	let roc_based = matches!(name, "KnowSureThing" | "CoppockCurve");
	let defined = match name {
		"ChaikinMoneyFlow" => {
			let n = cfg.get("size").and_then(Value::as_u64).unwrap_or(20) as usize;
			let from = h.cs.len().saturating_sub(n);
			h.cs[from..].iter().any(|c| c.volume > 0.0) || (h.cs.len() < n && h.cs[0].volume > 0.0)
		}
		// correlation of a constant window is undefined
		"TrendStrengthIndex" => !flat_inside,
		_ => !(roc_based && (src == "volume" || src == "volumed_price")),
	};
	if defined {
		for (k, x) in v.iter().enumerate() {
			if !x.is_finite() {
				bad.push((format!("value{k}|not-finite"), format!("{x}"), f64::INFINITY));
			}
		}
	}
	bad
}

fn check_indicator(d: &reg::IDesc, cfg: &dyn DC, cs: &[Candle], class: usize, seed: u64, r: &mut Report) {
	let cfgv = cfg.ser().unwrap_or(Value::Null);
	let Ok(Ok(mut inst)) = guard(|| cfg.init(&cs[0])) else { return };
	r.case_named(d.name, &[12, reg::json_hash(&cfgv), reg::candles_hash(cs)]);
	let n = max_period(&cfgv);
	let keep = 2 * n + 300;
	let mut h = Hist { cs: vec![cs[0]] };
	let srcname = cfgv.get("source").and_then(Value::as_str).unwrap_or("close").to_string();
	let source = crate::refi::cfg_src(&serde_json::json!({"source": srcname}), "source");
	// conditioning of the running sums behind the ratio: largest term ever seen vs the current window's total
	let mut max_term = 0.0f64;
	let mut max_vol = 0.0f64;
	let mut terms: std::collections::VecDeque<f64> = std::collections::VecDeque::new();
	let mut srcs: std::collections::VecDeque<f64> = std::collections::VecDeque::new();
	let mut reported = std::collections::BTreeSet::new();
	let mut flat_run = 0usize;
	let mut after_flat = 0u64;
	// values that became non-finite through an *undefined* step stay so in running sums: only judged while no such step happened
	let mut poisoned = false;
	for (i, c) in cs.iter().enumerate() {
		let Ok(res) = guard(|| inst.next(c)) else { return };
		if i > 0 {
			h.cs.push(*c);
			if h.cs.len() > 4 * keep {
				h.cs.drain(..2 * keep);
			}
		}
		let same = i > 0 && cs[i - 1] == *c;
		flat_run = if same { flat_run + 1 } else { 0 };
		let prev = if i > 0 { cs[i - 1] } else { cs[0] };
		let term = match d.name {
			"MoneyFlowIndex" => {
				if c.tp() != prev.tp() {
					c.volume as f64
				} else {
					0.0
				}
			}
			"ChaikinMoneyFlow" => c.volume as f64,
			"TrendStrengthIndex" => (c.source(source) as f64) * (c.source(source) as f64),
			"ChandeMomentumOscillator" | "RelativeStrengthIndex" => (c.source(source) as f64 - prev.source(source) as f64).abs(),
			"Envelopes" => (c.source(source) as f64).abs(),
			"KeltnerChannel" => (c.high as f64).max(prev.close as f64) - (c.low as f64).min(prev.close as f64),
			_ => 1.0,
		};
		max_term = max_term.max(term);
		terms.push_back(term);
		if terms.len() > n {
			terms.pop_front();
		}
		let mut wsum: f64 = terms.iter().sum();
		let wmax_term = if d.name == "MoneyFlowIndex" { max_vol } else { max_term };
		let _ = wmax_term;
		srcs.push_back(c.source(source) as f64);
		if srcs.len() > n {
			srcs.pop_front();
		}
		let window_constant = srcs.iter().all(|x| *x == srcs[0]) && (srcs.len() >= n || srcs[0] == cs[0].source(source) as f64);
		if d.name == "TrendStrengthIndex" {
			// the relevant total is the window's sum of squared deviations
			let mean = srcs.iter().sum::<f64>() / srcs.len() as f64;
			wsum = srcs.iter().map(|x| (x - mean) * (x - mean)).sum::<f64>() / n as f64;
		}
		max_vol = max_vol.max(c.volume as f64);
		let mt = if d.name == "MoneyFlowIndex" { max_vol } else { max_term };
		// relative size of a rounding residue of the running sums compared with the window's true total
		let cond = if wsum > 0.0 { EPS * (n as f64 + i as f64) * mt / wsum } else { f64::INFINITY };
		let flat_inside = flat_run + 1 >= n || window_constant;
		if flat_inside {
			after_flat += 1;
		}
		let bad = invariants(d.name, &cfgv, &res, c, &h, flat_inside, i as f64 + 1.0);
		r.eval(1);
		for (inv, detail, excess) in bad {
			if inv.ends_with("not-finite") {
				if poisoned {
					continue;
				}
			}
			let regime = if flat_inside { "window-inside-flat-stretch" } else if flat_run > 0 { "flat" } else { "moving" };
			// Root-cause class: a running sum that is divided (or whose sign matters) after terms many orders of
			// magnitude larger than the present window have passed through it, or while the window's true total is zero
			let tagged = matches!(d.name, "MoneyFlowIndex" | "ChaikinMoneyFlow" | "ChandeMomentumOscillator" | "RelativeStrengthIndex" | "Envelopes" | "KeltnerChannel" | "TrendStrengthIndex");
			// explained by a residue: the violation is no larger than what a residue of that relative size can cause
			// (anything if the window's true total is zero or the residue is comparable with it)
			let explained = cond.is_infinite() || cond > 1e-3 || excess <= 1024.0 * cond;
			let tag = if tagged { if explained { "|running-sum-residue" } else { "|not-explained-by-residue" } } else { "" };
			let sig = format!("C12|{}|{inv}{tag}", d.name);
			if reported.insert(sig.clone()) {
				r.violate(&sig, "a documented range / ordering / finiteness invariant does not hold", || {
					json!({"indicator": d.name, "config": cfgv, "step": i, "invariant": inv, "detail": detail, "regime": regime, "stream_class": class, "seed": seed, "len": cs.len(),
						"values": res.values().iter().map(|x| fj(*x as f64)).collect::<Vec<_>>(), "candle": [c.open as f64, c.high as f64, c.low as f64, c.close as f64, c.volume as f64]})
				});
			}
		}
		if res.values().iter().any(|x| !x.is_finite()) {
			poisoned = true;
		}
	}
	r.cell(&format!("{}:{}", d.name, if class == 101 { "long-flat" } else { gen::CANDLE_CLASSES[class % gen::CANDLE_CLASSES.len()] }));
	r.cell_n(&format!("{}:steps-with-window-inside-a-flat-stretch", d.name), after_flat);
}

/// method-level invariants: dispersion measures >= -allowance, TSI and CLV in [-1,1], finiteness
fn check_methods(ctx: &Ctx, r: &mut Report) {
	let names = ["LinearVolatility", "StDev", "MeanAbsDev", "MedianAbsDev", "TSI"];
	let mut k = 0u64;
	for name in names {
		let m = reg::method(name);
		for len in 2..=ctx.pick(60u64, 254) {
			for class in [7usize, 3, 2, 9] {
				k += 1;
				if !ctx.mine(k) {
					continue;
				}
				let mut rng = Rng::new(ctx.seed ^ k);
				let par = crate::work::params_for(&m, len, &mut rng);
				let xs = crate::work::stream_for(&m, class, ctx.seed ^ k << 8, 4 * len as usize + 200, len as usize);
				let Ok(Ok(mut inst)) = guard(|| (m.ctor)(&par, &xs[0])) else { continue };
				r.case_named(name, &[121, reg::json_hash(&par.show()), reg::ins_hash(&xs)]);
				let mut mag = 0.0f64;
				for (i, x) in xs.iter().enumerate() {
					if let In::V(v) = x {
						mag = mag.max((*v as f64).abs());
					}
					let Ok(Out::V(o)) = guard(|| inst.next(x)) else { break };
					let o = o as f64;
					r.eval(1);
					let bad = if name == "TSI" {
						if !(o.abs() <= 1.0 + TOL) {
							Some("outside[-1,1]")
						} else {
							None
						}
					} else {
						let tol = radius(if name == "MedianAbsDev" { Class::Direct } else { Class::Accum }, len as f64, i as f64 + 1.0, out_scale(name, len as f64, mag), 8.0);
						if !o.is_finite() {
							Some("not-finite")
						} else if o < -tol {
							Some("negative")
						} else {
							None
						}
					};
					if let Some(b) = bad {
						r.violate(&format!("C12|{name}|{b}"), "a method-level range invariant does not hold", || json!({"method": name, "params": par.show(), "step": i, "output": fj(o), "stream_class": class, "seed": ctx.seed ^ k << 8}));
						break;
					}
				}
				r.cell(&format!("method:{name}:{}", gen::VALUE_CLASSES[class]));
			}
		}
	}
	// TR and CLV on candles
	for kk in 0..ctx.pick(60u64, 600) {
		k += 1;
		if !ctx.mine(k) {
			continue;
		}
		let cs = gen::candles((kk % 6) as usize, ctx.seed ^ k, 400, 10);
		let m = reg::method("TR");
		let Ok(Ok(mut tr)) = guard(|| (m.ctor)(&Par::U, &In::C(cs[0]))) else { continue };
		for c in &cs {
			r.eval(2);
			if let Ok(Out::V(o)) = guard(|| tr.next(&In::C(*c))) {
				if !(o >= 0.0) {
					r.violate("C12|TR|negative", "true range is negative", || json!({"candle": format!("{c:?}"), "tr": fj(o as f64)}));
				}
			}
			let clv = c.clv() as f64;
			let cond = (c.high as f64).abs() / ((c.high - c.low) as f64).abs().max(f64::MIN_POSITIVE);
			if !(clv.abs() <= 1.0 + TOL + 8.0 * EPS * cond) {
				r.violate("C12|clv|outside[-1,1]", "CLV outside [-1,1] on a valid candle", || json!({"candle": format!("{c:?}"), "clv": fj(clv)}));
			}
		}
		r.cell("method:TR+clv");
	}
}

/// class 101: volatile -> 10 000 exactly identical single-price candles -> volatile (a recursive average of the true range
/// decays geometrically through the flat stretch, down into the subnormal range)
fn long_flat(seed: u64) -> Vec<Candle> {
	let mut cs = gen::candles(0, seed, 150, 14);
	let p = cs.last().unwrap().close as f64;
	for _ in 0..10_000 {
		cs.push(gen::mk(p, p, p, p, 10.0));
	}
	let tail = gen::candles(0, seed ^ 0x7A11, 150, 14);
	let scale = p / tail[0].open as f64;
	for c in tail {
		cs.push(gen::mk(c.open as f64 * scale, c.high as f64 * scale, c.low as f64 * scale, c.close as f64 * scale, c.volume as f64));
	}
	cs
}

/// class 102: volatile -> 400 candles each making a new high -> one wide reversal bar -> 400 candles each making a new low ->
/// one wide reversal bar -> volatile (trend counters and extreme-point trackers run far beyond 255 steps without a flip)
fn long_trend(seed: u64) -> Vec<Candle> {
	let mut cs = gen::candles(0, seed, 50, 14);
	let p = cs.last().unwrap().close as f64;
	let mut top = p;
	for i in 0..400 {
		let b = p * (1.0 + 0.004 * i as f64);
		cs.push(gen::mk(b, b * 1.003, b * 0.999, b * 1.002, 10.0));
		top = b * 1.002;
	}
	let low0 = p * 0.5;
	cs.push(gen::mk(top, top * 1.001, low0, low0 * 1.01, 25.0));
	let mut bottom = low0;
	for i in 0..400 {
		let b = low0 * (1.0 - 0.002 * i as f64);
		cs.push(gen::mk(b, b * 1.001, b * 0.997, b * 0.998, 10.0));
		bottom = b * 0.998;
	}
	cs.push(gen::mk(bottom, p * 2.0, bottom * 0.999, p * 1.98, 25.0));
	let tail = gen::candles(0, seed ^ 0x7A12, 100, 14);
	let scale = p * 1.98 / tail[0].open as f64;
	for c in tail {
		cs.push(gen::mk(c.open as f64 * scale, c.high as f64 * scale, c.low as f64 * scale, c.close as f64 * scale, c.volume as f64));
	}
	cs
}

pub fn run(ctx: &Ctx, r: &mut Report) {
	if let Some(rp) = &ctx.replay {
		let c = &rp["case"];
		if let Some(iname) = c.get("indicator").and_then(Value::as_str) {
			let d = reg::indicator(iname);
			if let Ok(cfg) = (d.default)().de(&c["config"]) {
				let class = c["stream_class"].as_u64().unwrap_or(0) as usize;
				let seed = c["seed"].as_u64().unwrap_or(0);
				let n = max_period(&c["config"]);
				let cs = if class == 101 { long_flat(seed) } else if class == 102 { long_trend(seed) } else { gen::candles(class, seed, c["len"].as_u64().unwrap_or(600) as usize, n.min(60)) };
				check_indicator(&d, cfg.as_ref(), &cs, class, seed, r);
			}
		}
		return;
	}
	let watched = ["Aroon", "RelativeStrengthIndex", "MoneyFlowIndex", "StochasticOscillator", "ChandeMomentumOscillator", "ChaikinMoneyFlow", "TrueStrengthIndex", "SMIErgodicIndicator", "BollingerBands", "KeltnerChannel", "Envelopes", "PriceChannelStrategy", "DonchianChannel", "IchimokuCloud", "ParabolicSAR"];
	let mut k = 0u64;
	for d in reg::indicators() {
		let is_watched = watched.contains(&d.name);
		let ncfg = if is_watched { ctx.pick(80, 400) } else { ctx.pick(12, 40) };
		let cfgs = icfg::configs(&d, ncfg, ctx.seed);
		for cfg in cfgs.iter() {
			let cfgv = cfg.ser().unwrap_or(Value::Null);
			let n = max_period(&cfgv);
			let classes: &[usize] = if is_watched { &[1, 2, 0, 3, 7] } else { &[1, 2] };
			k += 1;
			if ctx.mine(k) && cfgs.iter().position(|c| std::ptr::eq(c.as_ref(), cfg.as_ref())).map_or(false, |i| i < 8) {
				let seed = ctx.seed ^ k << 9;
				check_indicator(&d, cfg.as_ref(), &long_flat(seed), 101, seed, r);
				r.cell("stream:10000-candle-flat-stretch");
				check_indicator(&d, cfg.as_ref(), &long_trend(seed), 102, seed, r);
				r.cell("stream:400-candle-one-way-trends-with-wide-reversal-bars");
			}
			for &class in classes {
				let reps = if is_watched { ctx.pick(6, 10) } else { 2 };
				for rep in 0..reps {
					k += 1;
					if !ctx.mine(k) {
						continue;
					}
					let seed = ctx.seed ^ k << 9 ^ rep;
					let cs = gen::candles(class, seed, (6 * n + 200).min(1800), n.min(60));
					check_indicator(&d, cfg.as_ref(), &cs, class, seed, r);
				}
			}
		}
	}
	check_methods(ctx, r);
	if ctx.mine(0) {
		r.sample(|| json!({"indicator": "ChandeMomentumOscillator", "invariant": "value in [-1,1] +- 16 eps", "regimes": "volatile -> exactly flat for > period steps -> volatile, zero-volume stretches, grid, long ramps"}));
		r.sample(|| json!({"indicator": "ParabolicSAR", "invariant": "trend = +1 => sar <= low; trend = -1 => sar >= high; trend in {-1,0,1}"}));
	}
}
