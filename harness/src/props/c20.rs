//! C20 (wide part) — in builds with a wider PeriodType the definitional monitors are re-run with window
//! lengths beyond 255 (up to several thousand, and beyond 65535 for the windowless recursions).
use crate::gen;
use crate::props::{c02, c04, c14, c15};
use crate::reg::{self, Par, ParKind};
use crate::rep::Report;
use crate::rng::Rng;
use crate::work::stream_for;
use crate::{Ctx, P};
use serde_json::json;

pub fn run(ctx: &Ctx, r: &mut Report) {
	let pmax = P::MAX as u64;
	if pmax <= 255 {
		r.inconclusive("C20W needs a build with a wider PeriodType");
		return;
	}
	let mut lens: Vec<u64> = vec![255, 256, 257, 1000, 4095, 4096];
	let mut rng = Rng::new(ctx.seed ^ 0x20);
	for _ in 0..ctx.pick(2, 8) {
		lens.push(258 + rng.below(4742));
	}
	let huge: Vec<u64> = if pmax == 65535 { vec![65534] } else { vec![65534, 65535, 65536, 70000] };
	let mut k = 0u64;
	// reference-based monitors (C02 / C03 references) at wide lengths
	let names: Vec<&str> = c02::C02_METHODS.iter().chain(c02::C03_METHODS.iter()).cloned().filter(|n| !matches!(*n, "HeikinAshi" | "TR" | "Conv" | "TSI")).collect();
	let mut seen = std::collections::BTreeSet::new();
	for name in names {
		if !seen.insert(name) {
			continue;
		}
		let m = reg::method(name);
		if m.par != ParKind::L {
			continue;
		}
		let o1 = matches!(name, "EMA" | "DMA" | "TMA" | "DEMA" | "TEMA" | "RMA" | "WSMA" | "Momentum" | "Derivative" | "RateOfChange" | "Past");
		let mut ls = lens.clone();
		if o1 {
			ls.extend(huge.iter().cloned());
		}
		for len in ls {
			k += 1;
			if !ctx.mine(k) {
				continue;
			}
			if name == "WSMA" && len > pmax / 2 {
				continue;
			}
			let class = [0usize, 6, 2, 3][(k % 4) as usize];
			let steps = if len > 5000 { (2 * len as usize + 200).min(150_000) } else { 3 * len as usize + 100 };
			let xs = stream_for(&m, class, ctx.seed ^ k << 8, steps, len as usize);
			if let Some(res) = c02::check_stream("C20", &m, &Par::L(len as P), &xs, "wide", ctx.seed ^ k << 8, class, r) {
				r.eval(res.steps);
				r.cell(&format!("wide:{name}:{}", if len <= 257 { "255-257" } else if len <= 5000 { "258-5000" } else { ">=65534" }));
				r.max(&format!("max error/radius {name} (wide lengths)"), res.max_used);
			}
		}
	}
	// exact selections at wide lengths
	for (j, n) in [255usize, 256, 257, 1000, 4096].into_iter().enumerate() {
		k += 1;
		if !ctx.mine(k) {
			continue;
		}
		let class = [2usize, 5, 6, 4, 1][j];
		let mut xs = gen::values(class, ctx.seed ^ k, 3 * n + 50, n);
		for x in xs.iter_mut() {
			if !x.is_finite() {
				*x = 0.0;
			}
		}
		c04::check_stream(n, &xs, "wide", false, r);
		r.cell(&format!("wide:selections:n{n}"));
	}
	// reversal detectors with wide (left,right)
	for (l, rt) in [(200usize, 100usize), (300, 700), (1000, 3000), (254, 1), (128, 127)] {
		k += 1;
		if !ctx.mine(k) {
			continue;
		}
		let xs = c14::rev_stream(100, ctx.seed ^ k, 3 * (l + rt) + 600, (l + rt).min(60));
		c14::check_reversal(&c14::RevCase { left: l, right: rt, xs, tag: "wide".into() }, r);
		r.cell("wide:reversal");
	}
	// u16 build: streams longer than the PeriodType's capacity (the detectors' step counter reaches 65535 and is rebased)
	// with windows both shorter and longer than 255
	if pmax == 65535 {
		for (l, rt) in [(200usize, 100usize), (3, 2), (60, 250)] {
			k += 1;
			if !ctx.mine(k) {
				continue;
			}
			let total = 2 * 65536 + 3 * (l + rt) + 500;
			let xs = c14::rev_stream(100, ctx.seed ^ k, total, (l + rt).min(60));
			c14::check_reversal(&c14::RevCase { left: l, right: rt, xs, tag: "wide-long".into() }, r);
			r.cell("wide:reversal:stream-longer-than-PeriodType-capacity");
			r.count("steps:reversal-beyond-capacity", total as u64);
		}
	}
	// impulse responses at wide lengths (and beyond 65535 for the recursive kinds in the u32/u64 builds)
	for kind in c15::KINDS {
		let m = reg::method(kind);
		let mut ls: Vec<u64> = vec![255, 256, 257, 400, 1000];
		if matches!(kind, "EMA" | "DMA" | "TMA" | "DEMA" | "TEMA" | "RMA" | "WSMA") && pmax > 65535 {
			ls.extend([65535u64, 65536, 70000]);
		}
		for n in ls {
			k += 1;
			if !ctx.mine(k) {
				continue;
			}
			if kind == "WSMA" && n > pmax / 2 {
				continue;
			}
			c15::impulse(&m, n, r);
			c15::constant(&m, n, r);
			r.cell(&format!("wide:impulse:{kind}"));
		}
	}
	if ctx.mine(0) {
		r.sample(|| json!({"build": crate::build_id(), "wide lengths": lens, "beyond 65535 (recursive kinds, u32/u64 builds)": huge}));
	}
}
