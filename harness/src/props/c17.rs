//! C17 — timeseries converters keep the information they claim to keep
//! (CollapseTimeframe, Sequence::collapse_timeframe, HeikinAshi validity, Renko).
use crate::ap::{Ap, Tri, C, EPS};
use crate::gen;
use crate::rep::{fj, guard, Report};
use crate::rng::Rng;
use crate::{Ctx, V};
use serde_json::{json, Value};
use yata::core::{Candle, Method, Sequence, Source, OHLCV};
use yata::methods::renko::RenkoBlock;
use yata::methods::{CollapseTimeframe, HeikinAshi, Renko};

fn cj(c: &Candle) -> Value {
	json!([fj(c.open as f64), fj(c.high as f64), fj(c.low as f64), fj(c.close as f64), fj(c.volume as f64)])
}

fn collapse(ctx: &Ctx, r: &mut Report) {
	let mut periods: Vec<usize> = (1..=64).collect();
	periods.extend([100, 255, 256, 1000, 5000]);
	for (k, &p) in periods.iter().enumerate() {
		if !ctx.mine(k as u64) {
			continue;
		}
		let class = (k + ctx.seed as usize) % 5;
		let n = (7 * p + 13).min(12000).max(40);
		let cs = gen::candles(class, ctx.seed ^ (k as u64) << 8, n, 10);
		r.case(&[17, p as u64, crate::reg::candles_hash(&cs)]);
		let Ok(Ok(mut m)) = guard(|| CollapseTimeframe::<Candle>::new(p, &cs[0])) else {
			r.violate("C17|CollapseTimeframe|constructor", "constructor failed for a positive period", || json!({"period": p}));
			continue;
		};
		let mut emitted: Vec<Candle> = Vec::new();
		for (i, c) in cs.iter().enumerate() {
			let out = match guard(|| m.next(c)) {
				Ok(o) => o,
				Err(pn) => {
					r.violate(&format!("C17|CollapseTimeframe|panic:{}", pn.class()), &pn.msg, || json!({"period": p, "step": i}));
					break;
				}
			};
			r.eval(1);
			let should = (i + 1) % p == 0;
			match (out, should) {
				(Some(o), true) => {
					let w = &cs[i + 1 - p..=i];
					let hi = w.iter().map(|c| c.high).fold(V::NEG_INFINITY, V::max);
					let lo = w.iter().map(|c| c.low).fold(V::INFINITY, V::min);
					let vol: f64 = crate::ap::ksum(w.iter().map(|c| c.volume as f64));
					let vabs: f64 = w.iter().map(|c| (c.volume as f64).abs()).sum();
					let ok = o.open.to_bits() == w[0].open.to_bits() && o.high.to_bits() == hi.to_bits() && o.low.to_bits() == lo.to_bits() && o.close.to_bits() == w[p - 1].close.to_bits() && ((o.volume as f64) - vol).abs() <= C * EPS * vabs * (p as f64 + 2.0);
					if !ok {
						r.violate("C17|CollapseTimeframe|wrong-aggregate", "the emitted candle is not (first open, highest high, lowest low, last close, summed volume) of the collapsed inputs", || json!({"period": p, "step": i, "got": cj(&o), "expected": [fj(w[0].open as f64), fj(hi as f64), fj(lo as f64), fj(w[p - 1].close as f64), fj(vol)]}));
					}
					emitted.push(o);
				}
				(None, false) => {}
				(Some(_), false) => r.violate("C17|CollapseTimeframe|emits-off-period", "a candle was emitted on an input that is not a period-th input", || json!({"period": p, "step": i})),
				(None, true) => r.violate("C17|CollapseTimeframe|misses-period", "no candle on a period-th input", || json!({"period": p, "step": i})),
			}
		}
		// batch collapse of a sequence
		let batch = guard(|| Sequence::collapse_timeframe(&cs, p, false));
		match batch {
			Ok(b) => {
				r.eval(b.len() as u64);
				if b.len() != emitted.len() || b.iter().zip(emitted.iter()).any(|(x, y)| x != y) {
					r.violate("C17|Sequence::collapse_timeframe|differs-from-method", "the batch collapse differs from the streaming one", || json!({"period": p, "batch": b.len(), "streaming": emitted.len()}));
				}
			}
			Err(pn) => r.violate(&format!("C17|Sequence::collapse_timeframe|panic:{}", pn.class()), &pn.msg, || json!({"period": p})),
		}
		// sequences whose length is around one or two periods (an exact group must collapse to one candle)
		for len in [0usize, 1, p.saturating_sub(1), p, p + 1, 2 * p - 1, 2 * p, 2 * p + 1] {
			if len > cs.len() {
				continue;
			}
			let short = &cs[..len];
			for continuous in [false, true] {
				match guard(|| Sequence::collapse_timeframe(&short, p, continuous)) {
					Ok(b) => {
						r.eval(1);
						let want = if continuous { (len + 1).saturating_sub(p) } else { len / p };
						let first_ok = b.first().map_or(true, |o| {
							let w = &short[..p];
							o.open.to_bits() == w[0].open.to_bits() && o.close.to_bits() == w[p - 1].close.to_bits() && o.high.to_bits() == w.iter().map(|c| c.high).fold(V::NEG_INFINITY, V::max).to_bits() && o.low.to_bits() == w.iter().map(|c| c.low).fold(V::INFINITY, V::min).to_bits()
						});
						if b.len() != want || !first_ok {
							r.violate("C17|Sequence::collapse_timeframe|short-sequence", "the batch collapse of a sequence about as long as the period has the wrong number of candles or a wrong first candle", || json!({"period": p, "len": len, "continuous": continuous, "got": b.len(), "want": want}));
						}
					}
					Err(pn) => r.violate(&format!("C17|Sequence::collapse_timeframe|panic:{}", pn.class()), &pn.msg, || json!({"period": p, "len": len})),
				}
			}
		}
		r.cell("collapse:short-sequences");
		if p <= 64 {
			if let Ok(sl) = guard(|| Sequence::collapse_timeframe(&cs, p, true)) {
				r.eval(sl.len() as u64);
				let want = cs.len() + 1 - p;
				let mut ok = sl.len() == want;
				for (j, o) in sl.iter().enumerate().take(200) {
					let w = &cs[j..j + p];
					let hi = w.iter().map(|c| c.high).fold(V::NEG_INFINITY, V::max);
					let lo = w.iter().map(|c| c.low).fold(V::INFINITY, V::min);
					ok &= o.open.to_bits() == w[0].open.to_bits() && o.high.to_bits() == hi.to_bits() && o.low.to_bits() == lo.to_bits() && o.close.to_bits() == w[p - 1].close.to_bits();
				}
				if !ok {
					r.violate("C17|Sequence::collapse_timeframe|continuous-differs", "the continuous collapse is not the sliding aggregate", || json!({"period": p}));
				}
			}
		}
		r.cell(&format!("collapse:period:{}", if p <= 8 { p.to_string() } else if p <= 64 { "9-64".into() } else { ">64".into() }));
	}
}

fn heikin_valid(ctx: &Ctx, r: &mut Report) {
	for k in 0..ctx.pick(160u64, 400) {
		if !ctx.mine(k) {
			continue;
		}
		let cs = gen::candles((k % 6) as usize, ctx.seed ^ k << 5, 500, 10);
		let Ok(Ok(mut m)) = guard(|| HeikinAshi::new((), &cs[0])) else { continue };
		r.case(&[171, crate::reg::candles_hash(&cs)]);
		let mut ref_open: V = (cs[0].open + cs[0].high + cs[0].low + cs[0].close) * 0.25;
		for (i, c) in cs.iter().enumerate() {
			let Ok(o) = guard(|| m.next(c)) else {
				r.violate("C17|HeikinAshi|panic", "HeikinAshi panicked on a valid candle", || json!({"step": i}));
				break;
			};
			r.eval(1);
			// own validity oracle: Candle::validate() does not look at `open` (known finding of C18)
			let own_valid = o.low <= o.open.min(o.close) && o.high >= o.open.max(o.close) && o.low <= o.high
				&& o.open.is_finite() && o.close.is_finite() && o.high.is_finite() && o.low.is_finite()
				&& (o.volume >= 0.0 || (o.volume.is_nan() && c.volume.is_nan()));
			if !o.validate() || !own_valid {
				r.violate("C17|HeikinAshi|invalid-output", "HeikinAshi produced an invalid candle from valid input", || json!({"step": i, "input": cj(c), "output": cj(&o), "class": k % 6, "seed": ctx.seed ^ k << 5}));
				break;
			}
			// recursion: close = ohlc4(input); open = (previous HA open + previous HA close)/2, first open = ohlc4(first input);
			// high/low = extremes of the input's high/low and the HA open/close; volume is carried over
			let mag = c.open.abs().max(c.high.abs()).max(c.low.abs()).max(c.close.abs()).max(ref_open.abs());
			let tol = 8.0 * V::EPSILON * mag + V::MIN_POSITIVE;
			let want_close = (c.open + c.high + c.low + c.close) * 0.25;
			let want_high = c.high.max(ref_open).max(want_close);
			let want_low = c.low.min(ref_open).min(want_close);
			let bad = if (o.close - want_close).abs() > tol {
				Some("close")
			} else if (o.open - ref_open).abs() > tol {
				Some("open")
			} else if (o.high - want_high).abs() > tol {
				Some("high")
			} else if (o.low - want_low).abs() > tol {
				Some("low")
			} else if o.volume.to_bits() != c.volume.to_bits() {
				Some("volume")
			} else {
				None
			};
			if let Some(what) = bad {
				r.violate(&format!("C17|HeikinAshi|recursion|{what}"), "a HeikinAshi output field differs from the open/close recursion", || json!({"step": i, "input": cj(c), "output": cj(&o), "ref_open": ref_open, "want_close": want_close, "want_high": want_high, "want_low": want_low, "class": k % 6, "seed": ctx.seed ^ k << 5}));
				break;
			}
			ref_open = (ref_open + want_close) * 0.5;
			if o.low < c.low || o.high > c.high { r.count("heikin-ashi:open-outside-input-range", 1); }
		}
		r.cell(&format!("heikin-ashi:valid-output:{}", gen::CANDLE_CLASSES[(k % 6) as usize]));
	}
}

#[derive(Clone, Copy, Debug)]
struct Brick {
	lo: f64,
	hi: f64,
}

/// one Renko scenario: brick size, source and a price path generated from the model's own thresholds
fn renko_case(b: f64, source: Source, seed: u64, steps: usize, r: &mut Report) {
	let mut rng = Rng::new(seed);
	r.case(&[172, b.to_bits(), source as u64, seed, steps as u64]);
	let p0 = gen::q(*rng.pick(&[100.0, 1.0, 0.01234, 56789.0, 3.0]));
	let mk = |p: f64, vol: f64| -> Candle {
		// a candle whose `source` value is p (for the price-like sources)
		let p = p.max(1e-12);
		match source {
			Source::Volume => gen::mk(1.0, 1.0, 1.0, 1.0, p),
			_ => gen::mk(p, p, p, p, vol),
		}
	};
	let first = mk(p0, 0.0);
	let bv = b as V;
	let Ok(Ok(mut m)) = guard(|| Renko::new((bv, source), &first)) else {
		r.violate("C17|Renko|constructor-rejects-valid-size", "Renko::new rejected a brick size in (0,1)", || json!({"size": b}));
		return;
	};
	let v0 = first.source(source) as f64;
	let bq = bv as f64;
	let mut last = Brick { lo: v0 - v0 * bq * 0.5, hi: v0 + v0 * bq * 0.5 };
	let mut vol_acc = Ap::exact(0.0);
	let mut events = [0u64; 8];
	for i in 0..steps {
		let up_thr = last.hi * (1.0 + bq);
		let dn_thr = last.lo * (1.0 - bq);
		// next price relative to the model's thresholds
		let mode = rng.below(12);
		let ulp = |x: f64, k: i64| -> f64 {
			let bits = (x as V).to_bits() as i64 + k;
			V::from_bits(bits as _) as f64
		};
		let price = match mode {
			0 => ulp(up_thr, 0),
			1 => ulp(up_thr, -1),
			2 => ulp(up_thr, 1),
			3 => ulp(dn_thr, 0),
			4 => ulp(dn_thr, 1),
			5 => ulp(dn_thr, -1),
			6 => last.hi * (1.0 + bq * (1.0 + rng.below(6) as f64 + rng.f())),
			7 => last.lo * (1.0 - (bq * (1.0 + rng.below(6) as f64 + rng.f())).min(0.95)),
			8 => last.hi * (1.0 + bq * (rng.below(4) as f64 + 1.0)),
			9 => last.lo * (1.0 - (bq * (rng.below(4) as f64 + 1.0)).min(0.95)),
			_ => last.lo + (last.hi - last.lo) * rng.f(),
		};
		let price = gen::q(price.max(1e-9));
		let vol = if source == Source::Volume { 0.0 } else { gen::q(*rng.pick(&[0.0, 1.0, 12.5, 1000.0, 0.25])) };
		let c = mk(price, vol);
		let value = c.source(source) as f64;
		vol_acc = vol_acc + Ap::exact(c.volume as f64);
		let case = |what: &str| json!({"size": b, "source": format!("{source:?}"), "seed": seed, "step": i, "what": what, "price": fj(value), "last_brick": [fj(last.lo), fj(last.hi)], "mode": mode, "steps": steps});
		let out = match guard(|| m.next(&c)) {
			Ok(o) => o,
			Err(p) => {
				let kind = if mode <= 5 { "price-on-brick-boundary" } else { "other-price" };
				r.violate(&format!("C17|Renko|panic:{}|{kind}", p.class()), &format!("{} ({})", p.msg, p.loc), || case("next"));
				return;
			}
		};
		r.eval(1);
		let announced = out.len();
		if announced > 1_000_000 {
			r.violate("C17|Renko|absurd-brick-count", "the output announces an absurd number of bricks", || json!({"case": case("len"), "len": announced as u64}));
			return;
		}
		// iterator protocol against a Vec model
		let bricks: Vec<RenkoBlock> = out.clone().collect();
		let proto_ok = bricks.len() == announced && out.size_hint() == (announced, Some(announced)) && out.clone().count() == announced && out.is_empty() == (announced == 0);
		if !proto_ok {
			r.violate("C17|RenkoOutput|iterator-protocol|len-count-size_hint", "len / size_hint / count / is_empty disagree with the bricks produced", || case("protocol"));
		}
		if out.clone().last() != bricks.last().copied() {
			r.violate("C17|RenkoOutput|iterator-protocol|last", "last() is not the last brick", || case("last"));
		}
		for n in [0usize, 1, announced.saturating_sub(1), announced, announced + 3] {
			let res = guard(|| {
				let mut it = out.clone();
				let x = it.nth(n);
				// after nth the iterator must still be a sane, fused, exact-size iterator
				let rest = it.len();
				let more = it.next();
				(x, rest, more)
			});
			match res {
				Ok((x, rest, more)) => {
					let want = bricks.get(n).copied();
					let want_rest = announced.saturating_sub(n + 1);
					let want_more = bricks.get(n + 1).copied();
					if x != want || rest != want_rest || more != want_more {
						let kind = if n >= announced { "beyond-the-end" } else { "inside" };
						r.violate(&format!("C17|RenkoOutput|iterator-protocol|nth-{kind}"), "nth(n) disagrees with a Vec of the bricks (element, remaining length or the element after it)", || json!({"case": case("nth"), "n": n, "len": announced}));
					}
				}
				Err(p) => {
					let kind = if n >= announced { "beyond-the-end" } else { "inside" };
					r.violate(&format!("C17|RenkoOutput|iterator-protocol|nth-{kind}-panic:{}", p.class()), &p.msg, || json!({"case": case("nth"), "n": n, "len": announced}));
				}
			}
		}
		// partially consumed output: every consumer must see exactly the bricks not yet taken
		for k in 0..=announced.min(6) {
			let res = guard(|| {
				let adv = || {
					let mut it = out.clone();
					for _ in 0..k {
						it.next();
					}
					it
				};
				let rest: Vec<RenkoBlock> = adv().collect();
				let folded: Vec<RenkoBlock> = adv().fold(Vec::new(), |mut v, b| {
					v.push(b);
					v
				});
				(rest, folded, adv().last(), adv().count(), adv().len(), adv().size_hint(), adv().nth(0), adv().skip(1).next())
			});
			match res {
				Ok((rest, folded, last, count, len, hint, nth0, second)) => {
					let want = &bricks[k.min(bricks.len())..];
					let bad = if rest != want {
						Some("collect")
					} else if folded != want {
						Some("fold")
					} else if last != want.last().copied() {
						Some("last")
					} else if count != want.len() || len != want.len() || hint != (want.len(), Some(want.len())) {
						Some("count-len-size_hint")
					} else if nth0 != want.first().copied() || second != want.get(1).copied() {
						Some("nth-skip")
					} else {
						None
					};
					if let Some(what) = bad {
						r.violate(&format!("C17|RenkoOutput|iterator-protocol|partially-consumed|{what}"), "a consumer of a partially consumed RenkoOutput disagrees with the bricks not yet taken", || json!({"case": case("partial"), "taken": k, "len": announced}));
					}
				}
				Err(p) => r.violate(&format!("C17|RenkoOutput|iterator-protocol|partially-consumed|panic:{}", p.class()), &p.msg, || json!({"case": case("partial"), "taken": k, "len": announced})),
			}
		}
		// emission exactly when a threshold has been reached
		let v = Ap::exact(value);
		let upa = Ap::rounded(up_thr, 4.0);
		let dna = Ap::rounded(dn_thr, 4.0);
		let reached_up = v.ge(upa);
		let reached_dn = v.le(dna);
		let must = reached_up.or(reached_dn);
		match (must, announced > 0) {
			(Tri::Yes, false) => r.violate("C17|Renko|no-brick-although-boundary-reached", "the price has reached the next brick boundary but no brick was emitted", || case("emission")),
			(Tri::No, true) => r.violate("C17|Renko|brick-without-reaching-boundary", "bricks were emitted although the price has not reached a boundary", || case("emission")),
			_ => {}
		}
		if must == Tri::Maybe {
			events[0] += 1;
		}
		if announced == 0 {
			events[1] += 1;
			// a step without bricks has no direction
			if let Ok((ri, fa, sg)) = guard(|| (out.is_rising(), out.is_falling(), out.sign())) {
				if ri || fa || sg != 0 {
					r.violate("C17|RenkoOutput|direction-of-empty-step", "a step that emitted no brick reports a direction (is_rising / is_falling / sign)", || json!({"case": case("empty-step"), "is_rising": ri, "is_falling": fa, "sign": sg}));
				}
			}
			continue;
		}
		// bricks: one direction, contiguous, equally sized relative to the base, finite
		let rising = bricks[0].close > bricks[0].open;
		let base = if rising { last.hi } else { last.lo };
		let tol = |x: f64| 16.0 * EPS * x.abs();
		let mut ok = true;
		for (j, bk) in bricks.iter().enumerate() {
			let (o, cl) = (bk.open as f64, bk.close as f64);
			if !(o.is_finite() && cl.is_finite() && (bk.volume as f64).is_finite()) {
				r.violate("C17|Renko|non-finite-brick", "a brick has a non-finite field", || case("finite"));
				ok = false;
				break;
			}
			if (cl > o) != rising || cl == o {
				r.violate("C17|Renko|bricks-of-one-step-change-direction", "the bricks of one step do not share one direction", || case("direction"));
				ok = false;
			}
			if j > 0 && bricks[j - 1].close.to_bits() != bk.open.to_bits() {
				r.violate("C17|Renko|bricks-not-contiguous-within-step", "close of a brick is not the open of the next brick of the same step", || case("contiguity"));
				ok = false;
			}
			let size = (cl - o).abs();
			if (size - bq * base).abs() > tol(base) * (j as f64 + 4.0) {
				r.violate("C17|Renko|brick-size", "a brick is not `size` x base wide", || json!({"case": case("size"), "brick": j, "width": fj(size), "expected": fj(bq * base)}));
				ok = false;
			}
			if bk.sign() != if rising { 1 } else { -1 } || (bk.upper_bound() as f64) != o.max(cl) || (bk.lower_bound() as f64) != o.min(cl) {
				r.violate("C17|RenkoBlock|helpers", "sign / bounds of a brick disagree with its open and close", || case("block helpers"));
			}
		}
		// contiguity with the previous brick (close when continuing, open when reversing)
		let first_open = bricks[0].open as f64;
		if (first_open - base).abs() > tol(base) * 4.0 {
			let kind = if (rising && (first_open - last.lo).abs() <= tol(base) * 4.0) || (!rising && (first_open - last.hi).abs() <= tol(base) * 4.0) { "starts-at-the-wrong-end-of-the-previous-brick" } else { "gap-to-the-previous-brick" };
			r.violate(&format!("C17|Renko|not-contiguous-across-steps|{kind}"), "the first brick of a step does not start where the previous brick ended (same direction) or began (reversal)", || json!({"case": case("contiguity across steps"), "first_open": fj(first_open), "expected": fj(base)}));
			ok = false;
		}
		// count = floor(distance / (b * base)), +-1 within the allowance of an integer
		let dist = if rising { value - base } else { base - value };
		let q = dist / (bq * base);
		let n = announced as f64;
		if !(n >= (q - 1e-9 * q.abs().max(1.0)).floor().max(1.0) - 0.0 && n <= (q + 1e-9 * q.abs().max(1.0)).floor().max(1.0)) {
			r.violate("C17|Renko|brick-count", "the number of bricks is not floor(distance / (size x base))", || json!({"case": case("count"), "bricks": announced, "distance/brick": fj(q)}));
			ok = false;
		}
		// volume conservation
		let vsum: f64 = bricks.iter().map(|b| b.volume as f64).sum();
		let vol_exp = vol_acc.widen(C * EPS * vol_acc.v.abs() * (announced as f64 + 4.0));
		if !vol_exp.contains(vsum) {
			r.violate("C17|Renko|volume-not-conserved", "the bricks do not carry in total the volume consumed since the previous emission", || json!({"case": case("volume"), "bricks_volume": fj(vsum), "consumed": fj(vol_acc.v)}));
			ok = false;
		}
		// OHLCV view of the output against the bricks
		let (vo, vc) = (out.open() as f64, out.close() as f64);
		let lc = bricks[announced - 1].close as f64;
		let view_tol = tol(base) * (announced as f64 + 4.0);
		if (vo - first_open).abs() > view_tol || (vc - lc).abs() > view_tol {
			let unit = if (base - 1.0).abs() < 1e-12 { "base=1" } else { "base!=1" };
			r.violate(&format!("C17|RenkoOutput|ohlcv-view|close-differs-from-last-brick|{unit}"), "the OHLCV view of the output (open/close/gap) disagrees with the bricks it iterates", || json!({"case": case("view"), "view_open": fj(vo), "view_close": fj(vc), "first_brick_open": fj(first_open), "last_brick_close": fj(lc), "gap": fj(out.gap() as f64)}));
		} else {
			let (vh, vl) = (out.high() as f64, out.low() as f64);
			if vh != vo.max(vc) || vl != vo.min(vc) {
				r.violate("C17|RenkoOutput|ohlcv-view|high-low", "high/low of the view are not max/min of open and close", || case("view"));
			}
		}
		if !vol_exp.contains(out.volume() as f64) || out.sign() != if rising { 1 } else { -1 } || out.is_rising() != rising || out.is_falling() == rising {
			r.violate("C17|RenkoOutput|ohlcv-view|volume-or-sign", "volume / sign / is_rising of the view disagree with the bricks", || case("view"));
		}
		events[if rising { 2 } else { 3 }] += 1;
		if announced > 1 {
			events[4] += 1;
		}
		let reversal = (rising && (first_open - last.hi).abs() <= tol(base) * 4.0 && events[7] == 2) || (!rising && events[7] == 1);
		if reversal {
			events[5] += 1;
		}
		events[7] = if rising { 1 } else { 2 };
		if mode <= 5 {
			events[6] += 1;
		}
		// observable state for the next step
		let lb = bricks[announced - 1];
		last = Brick { lo: (lb.open as f64).min(lb.close as f64), hi: (lb.open as f64).max(lb.close as f64) };
		vol_acc = Ap::exact(0.0);
		if !ok && r.viol.len() > 12 {
			return;
		}
	}
	for (name, n) in [("threshold-ambiguous", events[0]), ("silent-steps", events[1]), ("rising-emissions", events[2]), ("falling-emissions", events[3]), ("multi-brick-steps", events[4]), ("reversals", events[5]), ("emissions-on-exact-boundary-probes", events[6])] {
		r.cell_n(&format!("renko:{name}"), n);
	}
}

fn renko(ctx: &Ctx, r: &mut Report) {
	let sizes: [f64; 12] = [V::EPSILON as f64 * 4.0, 1e-6, 1e-4, 0.001, 0.01, 0.0123, 0.05, 0.1, 0.25, 0.5, 0.9, 0.999];
	let sources = [Source::Close, Source::Open, Source::High, Source::Low, Source::HL2, Source::TP, Source::Volume, Source::VolumedPrice];
	let reps = ctx.pick(24u64, 60);
	let mut k = 0u64;
	for &b in &sizes {
		for &s in &sources {
			if s == Source::VolumedPrice {
				continue; // price x volume: covered through Volume and the price sources
			}
			for rep in 0..reps {
				k += 1;
				if !ctx.mine(k) {
					continue;
				}
				renko_case(gen::q(b), s, ctx.seed ^ k << 10 ^ rep, ctx.pick(400, 1500), r);
			}
		}
	}
	// the documented example
	if ctx.mine(0) {
		let inputs: Vec<Candle> = [100.0, 100.5, 101.506, 105.0, 102.0, 101.4, 100.0].iter().map(|&v| Candle { close: v as V, ..Candle::default() }).collect();
		if let Ok(Ok(mut m)) = guard(|| Renko::new((0.01, Source::Close), &inputs[0])) {
			let lens: Vec<usize> = inputs.iter().map(|c| m.next(c).len()).collect();
			if lens != vec![0, 0, 1, 3, 1, 1, 1] {
				r.inconclusive(&format!("calibration: the documented Renko example gives {lens:?}"));
			}
			r.sample(|| json!({"renko documented example (size 1%)": [100.0, 100.5, 101.506, 105.0, 102.0, 101.4, 100.0], "bricks per step": lens}));
		}
	}
}

pub fn run(ctx: &Ctx, r: &mut Report) {
	if let Some(rp) = &ctx.replay {
		let c = if rp["case"].get("case").is_some() { &rp["case"]["case"] } else { &rp["case"] };
		if let Some(sz) = c.get("size").and_then(Value::as_f64) {
			let src = match c["source"].as_str().unwrap_or("Close") {
				"Open" => Source::Open,
				"High" => Source::High,
				"Low" => Source::Low,
				"HL2" => Source::HL2,
				"TP" => Source::TP,
				"Volume" => Source::Volume,
				_ => Source::Close,
			};
			renko_case(sz, src, c["seed"].as_u64().unwrap_or(0), c["steps"].as_u64().unwrap_or(400) as usize, r);
		}
		return;
	}
	collapse(ctx, r);
	heikin_valid(ctx, r);
	renko(ctx, r);
}
