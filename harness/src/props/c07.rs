//! C07 — accuracy does not decay with the length of the stream.
//! Long-lived instances are compared at *every* step of 10^6..10^7-step streams with (B) the recurrence
//! references, (C) the from-scratch window references, exact models for selections and detectors,
//! (A) a fresh instance primed with the last horizon at checkpoints, and (D) a position-independent
//! tolerance on exact-grid streams for the methods whose accumulators are exact there.
use crate::ap::{C, EPS};
use crate::errm::{out_scale, radius};
use crate::gen;
use crate::refm::{lower_reversal, make_ref, upper_reversal, RefCross};
use crate::reg::{self, action_code, Class, In, InKind, MDesc, Num, Out, Par, ParKind};
use crate::rep::{fj, guard, Report};
use crate::rng::Rng;
use crate::work::{params_for, show_ins, stream_for};
use crate::{Ctx, P, V};
use serde_json::{json, Value};
use std::collections::VecDeque;

const CHUNK: usize = 20_000;
/// regime schedule: volatile, vol->flat->vol, scale jumps, grid, plateaus, constant, signed, ramps, big-mean, ties
const SCHEDULE: [usize; 10] = [0, 7, 3, 6, 2, 8, 1, 4, 9, 5];
/// methods whose running sums are exact on the dyadic grid streams (any drift there is a logic error)
const GRID_EXACT: [&str; 7] = ["WMA", "SWMA", "LinReg", "Integral", "LinearVolatility", "VWMA", "Momentum"];

fn decade(t: u64) -> u32 {
	(t.max(1) as f64).log10().floor() as u32
}

fn chunk_for(m: &MDesc, k: usize, seed: u64, n: usize, grid_only: bool) -> (usize, Vec<In>) {
	let class = if grid_only { 6 } else { SCHEDULE[k % SCHEDULE.len()] };
	(class, stream_for(m, class, seed ^ (k as u64) << 20, CHUNK, n))
}

/// arithmetic methods with a scalar reference: every step against the reference
fn long_arith(m: &MDesc, len: u64, total: usize, seed: u64, grid_only: bool, r: &mut Report) {
	let mut rng = Rng::new(seed);
	let par = if (m.name == "Integral" || m.name == "ADI") && len == 0 { Par::L(0) } else { params_for(m, len, &mut rng) };
	let n = par.len().max(1);
	let (_, first) = chunk_for(m, 0, seed, n, grid_only);
	let init = first[0].clone();
	let Some(mut rf) = make_ref(m.name, &par, &init) else { return };
	r.case_named(m.name, &[7, reg::json_hash(&par.show()), total as u64, seed, grid_only as u64]);
	let Ok(Ok(mut inst)) = guard(|| (m.ctor)(&par, &init)) else { return };
	let exact_grid = grid_only && GRID_EXACT.contains(&m.name);
	let mut t: u64 = 0;
	let mut mag = 0.0f64;
	let mut max_used = 0.0f64;
	let mut exempt = 0u64;
	let nchunks = (total + CHUNK - 1) / CHUNK;
	// ratios are judged by the conditioning-aware reference oracle only; a reference-free differential cannot bound them
	let finite_window = !matches!(m.class, Class::Contraction | Class::Cumulative) && !matches!(m.name, "Vidya" | "CCI" | "RateOfChange" | "VWMA") && !(len == 0);
	'outer: for k in 0..nchunks {
		let (class, xs) = if k == 0 { (if grid_only { 6 } else { SCHEDULE[0] }, first.clone()) } else { chunk_for(m, k, seed, n, grid_only) };
		let mut i = 0usize;
		while i < xs.len() {
			let x = &xs[i];
			mag = mag.max(match x {
				In::V(v) => (*v as f64).abs(),
				In::P(a, _) => (*a as f64).abs(),
				In::C(c) => (c.high as f64).max(c.volume as f64),
			});
			let out = match guard(|| inst.next(x)) {
				Ok(Out::V(v)) => v as f64,
				Ok(_) => return,
				Err(p) => {
					r.violate(&format!("C07|{}|panic-late-in-stream:{}", m.name, p.class()), &p.msg, || json!({"method": m.name, "params": par.show(), "position": t}));
					return;
				}
			};
			let ap = rf.next(x, out);
			t += 1;
			if ap.is_undefined() {
				exempt += 1;
			} else {
				let (ok, used) = if exact_grid {
					// position-independent tolerance: a fixed number of roundings at the output scale
					let tol = 8.0 * C * EPS * out_scale(m.name, n as f64, mag) * (n as f64 + 8.0) + f64::MIN_POSITIVE;
					let d = (out - ap.v).abs();
					(d <= tol, d / tol)
				} else {
					(ap.contains(out), ap.used(out))
				};
				if used.is_finite() {
					max_used = max_used.max(used);
				}
				if !ok {
					let sigk = if exact_grid { "drift-on-exact-grid" } else { "value-outside-allowance" };
					r.violate(&format!("C07|{}|{sigk}|decade{}", m.name, decade(t)), "a long-lived instance no longer equals the from-scratch definition on its recent inputs", || {
						json!({"method": m.name, "params": par.show(), "len": len, "position": t, "got": fj(out), "expected": fj(ap.v), "radius": fj(ap.e), "regime_class": class, "seed": seed, "grid_only": grid_only, "total": total, "recent_inputs": show_ins(&xs[i.saturating_sub(n.min(12))..=i])})
					});
					break 'outer;
				}
			}
			// (A) long-lived vs fresh instance primed with the last horizon, at checkpoints
			let checkpoint = finite_window && (t == 1_000 || t == 10_000 || t % 100_000 == 0) && i >= 2 * n + 2 && i + 3 * n + 60 < xs.len();
			if checkpoint {
				let h = 2 * n + 2;
				let prime = &xs[i + 1 - h..=i];
				let res = guard(|| {
					let mut fresh = (m.ctor)(&par, &prime[0]).ok()?;
					for p in prime {
						fresh.next(p);
					}
					let mut long = inst.bclone();
					let mut worst: Option<(usize, f64, f64)> = None;
					for (j, x) in xs[i + 1..i + 1 + 3 * n + 50].iter().enumerate() {
						let (a, b) = (long.next(x).as_f()?, fresh.next(x).as_f()?);
						let s = out_scale(m.name, n as f64, mag);
						let tol = if exact_grid { 16.0 * C * EPS * s * (n as f64 + 8.0) } else { 2.0 * radius(m.class, n as f64, t as f64, s, 8.0) } + f64::MIN_POSITIVE;
						let tol = if m.name == "StDev" { 2.0 * radius(Class::Accum, n as f64, t as f64, 2.0 * mag * mag, 8.0).sqrt() } else { tol };
						let tol = if matches!(m.name, "CCI" | "RateOfChange" | "VWMA") { tol.max(64.0 * EPS.sqrt() * s.max(1.0)) } else { tol };
						// equal bit patterns (incl. two infinities of one sign: a Conv kernel whose weights sum to zero divides by zero) agree
						if !((a - b).abs() <= tol || (a.is_nan() && b.is_nan()) || a.to_bits() == b.to_bits()) && worst.is_none() {
							worst = Some((j, a, b));
						}
					}
					Some(worst)
				});
				r.eval(3 * n as u64 + 50);
				r.cell(&format!("long-vs-fresh:{}:decade{}", m.name, decade(t)));
				if let Ok(Some(Some((j, a, b)))) = res {
					r.violate(&format!("C07|{}|long-lived-differs-from-fresh-primed|decade{}", m.name, decade(t)), "an instance with a long past does not behave like a fresh instance primed with the last window", || json!({"method": m.name, "params": par.show(), "position": t, "steps_after_checkpoint": j, "long_lived": fj(a), "fresh_primed": fj(b), "seed": seed}));
					break 'outer;
				}
			}
			i += 1;
		}
		r.cell(&format!("{}:{}:decade{}", m.name, if grid_only { "grid" } else { gen::VALUE_CLASSES[class % 10] }, decade(t)));
	}
	r.eval(t);
	r.count(&format!("steps:{}", m.name), t);
	r.count(&format!("exempt_steps:{}", m.name), exempt);
	r.max(&format!("max error/allowance {}{}", m.name, if exact_grid { " (exact grid, position-independent)" } else { "" }), max_used);
	r.max("longest stream (steps)", t as f64);
}

/// selections: Highest, Lowest, Delta, HighestIndex, LowestIndex, SMM, Past — exact at every step of a long stream
fn long_select(n: usize, total: usize, seed: u64, r: &mut Report) {
	let names = ["Highest", "Lowest", "HighestLowestDelta", "HighestIndex", "LowestIndex", "SMM", "Past"];
	let ms: Vec<MDesc> = names.iter().map(|x| reg::method(x)).collect();
	let par = Par::L(n as P);
	r.case(&[71, n as u64, total as u64, seed]);
	let first = gen::values(SCHEDULE[0], seed, CHUNK, n);
	let init = In::V(first[0] as V);
	let mut insts = Vec::new();
	for m in &ms {
		match guard(|| (m.ctor)(&par, &init)) {
			Ok(Ok(i)) => insts.push(i),
			_ => return,
		}
	}
	let mut win: VecDeque<f64> = std::iter::repeat(first[0]).take(n).collect();
	let mut t = 0u64;
	let nchunks = (total + CHUNK - 1) / CHUNK;
	for k in 0..nchunks {
		let class = [2usize, 5, 6, 4, 1, 7][k % 6];
		let mut xs = if k == 0 { first.clone() } else { gen::values(class, seed ^ (k as u64) << 20, CHUNK, n) };
		for x in xs.iter_mut() {
			if !x.is_finite() {
				*x = 0.0;
			}
		}
		for (i, &x) in xs.iter().enumerate() {
			let past = win.pop_front().unwrap();
			win.push_back(x);
			t += 1;
			let e_max = win.iter().cloned().fold(f64::NEG_INFINITY, f64::max);
			let e_min = win.iter().cloned().fold(f64::INFINITY, f64::min);
			let e_hi = win.iter().rev().position(|&y| y == e_max).unwrap() as u64;
			let e_lo = win.iter().rev().position(|&y| y == e_min).unwrap() as u64;
			let med = if t % 5 == 0 || n <= 16 {
				let mut s: Vec<f64> = win.iter().cloned().collect();
				s.sort_by(|a, b| a.partial_cmp(b).unwrap());
				Some(((s[n / 2] as V + s[(n - 1) / 2] as V) * 0.5) as f64)
			} else {
				None
			};
			let xv = In::V(x as V);
			for (mi, inst) in insts.iter_mut().enumerate() {
				let out = match guard(|| inst.next(&xv)) {
					Ok(o) => o,
					Err(p) => {
						r.violate(&format!("C07|{}|panic-late-in-stream:{}", names[mi], p.class()), &p.msg, || json!({"n": n, "position": t}));
						return;
					}
				};
				let ok = match (names[mi], &out) {
					("Highest", Out::V(v)) => *v as f64 == e_max,
					("Lowest", Out::V(v)) => *v as f64 == e_min,
					("HighestLowestDelta", Out::V(v)) => *v as f64 == ((e_max as V) - (e_min as V)) as f64,
					("HighestIndex", Out::I(ix)) => *ix == e_hi,
					("LowestIndex", Out::I(ix)) => *ix == e_lo,
					("SMM", Out::V(v)) => med.map_or(true, |m| *v as f64 == m),
					("Past", Out::V(v)) => (*v as f64).to_bits() == past.to_bits() || (*v as f64 == past),
					_ => false,
				};
				if !ok {
					r.violate(&format!("C07|{}|selection-wrong-late-in-stream|decade{}", names[mi], decade(t)), "a selection of a long-lived instance is not the exact selection over the last n inputs", || json!({"method": names[mi], "n": n, "position": t, "got": out.show(), "regime_class": class, "seed": seed, "recent_inputs": crate::rep::fjs(&xs[i.saturating_sub(n.min(16))..=i])}));
					return;
				}
			}
		}
		r.cell(&format!("selections:n{}:decade{}", if n <= 16 { "<=16" } else { ">16" }, decade(t)));
	}
	r.eval(t * names.len() as u64);
	r.count("steps:selections", t);
	r.max("longest stream (steps)", t as f64);
}

/// crossing and reversal detectors on long streams (positions far beyond PeriodType::MAX)
fn long_detectors(left: usize, right: usize, total: usize, seed: u64, r: &mut Report) {
	use yata::core::{Action, Method};
	use yata::methods::{Cross, LowerReversalSignal, ReversalSignal, UpperReversalSignal};
	r.case(&[72, left as u64, right as u64, total as u64, seed]);
	let first = gen::values(2, seed, 64, 8);
	let init = first[0] as V;
	let made = guard(|| Some((UpperReversalSignal::new(left as P, right as P, &init).ok()?, LowerReversalSignal::new(left as P, right as P, &init).ok()?, ReversalSignal::new(left as P, right as P, &init).ok()?)));
	let Ok(Some((mut up, mut lo, mut both))) = made else { return };
	let mut cross = Cross::default();
	let mut rc = RefCross::default();
	let keep = left + right + 1;
	let mut tail: Vec<f64> = Vec::new();
	let mut t = 0u64;
	let mut fired = 0u64;
	let nchunks = (total + CHUNK - 1) / CHUNK;
	let mut rng = Rng::new(seed ^ 0xDE7);
	// integer random walk with plateaus: pivots every few steps, many ties
	let mut level = 50i64;
	for k in 0..nchunks {
		for _ in 0..CHUNK {
			if !rng.chance(0.25) {
				level += rng.range(-2, 2);
			}
			let x = level as f64;
			// (the first value fed must be the construction value)
			let x = if t == 0 { first[0] } else { x };
			tail.push(x);
			if tail.len() > 2 * keep + 64 {
				let cut = tail.len() - keep;
				tail.drain(..cut);
			}
			let i = tail.len() - 1;
			// before the tail was ever trimmed it holds the whole history: the definition applies unchanged
			let eu = upper_reversal(&tail, i, left, right) && (t as usize >= right);
			let el = lower_reversal(&tail, i, left, right) && (t as usize >= right);
			let xv = x as V;
			let res = guard(|| (up.next(&xv), lo.next(&xv), both.next(&xv), cross.next(&(xv, 50.0 as V))));
			let Ok((gu, gl, gb, gc)) = res else {
				r.violate("C07|reversal|panic-late-in-stream", "detector panicked", || json!({"left": left, "right": right, "position": t}));
				return;
			};
			let ec = rc.cross(xv, 50.0 as V);
			t += 1;
			let a = |b: bool| if b { action_code(Action::BUY_ALL) } else { action_code(Action::None) };
			let eb = el as i32 - eu as i32;
			let gbs = match gb {
				Action::Buy(v) => v as i32,
				Action::Sell(v) => -(v as i32),
				Action::None => 0,
			};
			if action_code(gu) != a(eu) || action_code(gl) != a(el) || gbs != eb * 255 || action_code(gc) != action_code(Action::from(ec)) {
				let which = if action_code(gu) != a(eu) { "UpperReversalSignal" } else if action_code(gl) != a(el) { "LowerReversalSignal" } else if gbs != eb * 255 { "ReversalSignal" } else { "Cross" };
				r.violate(&format!("C07|{which}|detector-wrong-late-in-stream|decade{}", decade(t)), "a detector of a long-lived instance no longer follows its definition", || json!({"left": left, "right": right, "position": t, "expected_upper": eu, "expected_lower": el, "seed": seed, "recent": crate::rep::fjs(&tail[tail.len().saturating_sub(keep + 2)..])}));
				return;
			}
			fired += (eu || el) as u64;
		}
		r.cell(&format!("detectors:decade{}", decade(t)));
		let _ = k;
	}
	r.eval(4 * t);
	r.count("steps:detectors", t);
	r.count("reversals_fired_in_long_streams", fired);
	r.count("times_position_crossed_PeriodType_capacity", t / (P::MAX as u64).saturating_add(1).max(1));
	r.max("longest stream (steps)", t as f64);
}

/// long candle stream: 3000-step segments through a regime schedule (walk, long ramps, trend+ripple, flat stretches, trends, grid, zero volume, clean)
fn long_candles(total: usize, seed: u64) -> Vec<yata::core::Candle> {
	let mut cs: Vec<yata::core::Candle> = Vec::with_capacity(total);
	let sched = [0usize, 7, 8, 1, 4, 3, 8, 2, 6, 7];
	let mut j = 0usize;
	while cs.len() < total {
		let class = sched[j % sched.len()];
		cs.extend(gen::candles(class, seed ^ (j as u64) << 24, 3000.min(total - cs.len()).max(2), 20));
		j += 1;
	}
	cs
}

pub fn run(ctx: &Ctx, r: &mut Report) {
	if let Some(rp) = &ctx.replay {
		let c = &rp["case"];
		if let Some(mn) = c.get("method").and_then(Value::as_str) {
			if c.get("len").is_some() {
				long_arith(&reg::method(mn), c["len"].as_u64().unwrap_or(1), c["total"].as_u64().unwrap_or(100_000) as usize, c["seed"].as_u64().unwrap_or(0), c["grid_only"].as_bool().unwrap_or(false), r);
			} else {
				long_select(c["n"].as_u64().unwrap_or(1) as usize, (c["position"].as_u64().unwrap_or(1000) + CHUNK as u64) as usize, c["seed"].as_u64().unwrap_or(0), r);
			}
		} else if let Some(iname) = c.get("indicator").and_then(Value::as_str) {
			let d = reg::indicator(iname);
			if let Ok(cfg) = (d.default)().de(&c["config"]) {
				let seed = c["seed"].as_u64().unwrap_or(0);
				let cs = long_candles(c["len"].as_u64().unwrap_or(60_000) as usize, seed);
				crate::props::c05::DOC_CHECKS.store(false, std::sync::atomic::Ordering::Relaxed);
				crate::props::c05::check(true, true, &d, cfg.as_ref(), &cs, "long", seed, 99, 0, r);
			}
		} else if c.get("left").is_some() {
			long_detectors(c["left"].as_u64().unwrap_or(1) as usize, c["right"].as_u64().unwrap_or(1) as usize, (c["position"].as_u64().unwrap_or(1000) + CHUNK as u64) as usize, c["seed"].as_u64().unwrap_or(0), r);
		}
		return;
	}
	let small: [u64; 5] = [1, 2, 3, 7, 14];
	let large: [u64; 3] = [50, 127, 254];
	let (t_small, t_large) = ctx.pick((1_000_000usize, 200_000usize), (10_000_000, 2_000_000));
	let mut k = 0u64;
	let names: Vec<&str> = crate::props::c02::C02_METHODS.iter().chain(crate::props::c02::C03_METHODS.iter()).cloned().filter(|n| *n != "HeikinAshi").collect();
	let mut seen = std::collections::BTreeSet::new();
	for name in names {
		if !seen.insert(name) {
			continue;
		}
		let m = reg::method(name);
		let nl = ctx.pick(1, 3);
		for j in 0..nl {
			for (pool, total) in [(&small[..], t_small), (&large[..], t_large)] {
				let len = pool[(crate::rng::hash_str(name) as usize + j + ctx.seed as usize) % pool.len()];
				let len = len.max(m.min_len).min(m.max_len.max(1));
				if m.par == ParKind::U && j > 0 {
					continue;
				}
				for grid_only in [false, true] {
					// grid-only runs: position-independent tolerance for the GRID_EXACT methods; for Vidya (whose
					// no-movement rule is sharp only when the sums are exact) and the single-accumulator methods
					// the ordinary reference comparison on dyadic data
					if grid_only && !(GRID_EXACT.contains(&name) || matches!(name, "Vidya" | "SMA" | "StDev" | "TRIMA" | "HMA" | "MeanAbsDev" | "EMA" | "TSI")) {
						continue;
					}
					k += 1;
					if !ctx.mine(k) {
						continue;
					}
					long_arith(&m, len, if grid_only { total / 2 } else { total }, ctx.seed ^ k << 8, grid_only, r);
				}
			}
		}
		// windowless cumulative variants
		if name == "Integral" || name == "ADI" {
			k += 1;
			if ctx.mine(k) {
				long_arith(&m, 0, t_small / 2, ctx.seed ^ k << 8, name == "Integral", r);
			}
		}
	}
	for (j, n) in [3usize, 14, 2, 127, 254, 7].into_iter().enumerate() {
		k += 1;
		if !ctx.mine(k) || (!ctx.thorough && j >= 3 + (ctx.seed % 2) as usize) {
			continue;
		}
		long_select(n, if n > 16 { t_large } else { t_small }, ctx.seed ^ k << 8, r);
	}
	let pairs: [(usize, usize); 8] = [(2, 2), (1, 1), (126, 127), (4, 2), (10, 5), (3, 7), (50, 50), (1, 20)];
	for (j, (l, rt)) in pairs.into_iter().enumerate() {
		k += 1;
		if !ctx.mine(k) || (!ctx.thorough && j >= 4) {
			continue;
		}
		long_detectors(l, rt, ctx.pick(2_000_000, 30_000_000) / if l + rt > 20 { 4 } else { 1 }, ctx.seed ^ k << 8, r);
	}
	// indicators: values and signals against their references at every step of long candle streams
	// (regime schedule incl. 700-step monotone ramps, flat stretches, zero volume, grid)
	{
		use crate::props::c05;
		c05::DOC_CHECKS.store(false, std::sync::atomic::Ordering::Relaxed);
		let total = ctx.pick(60_000usize, 600_000);
		for d in reg::indicators() {
			let cfgs = crate::icfg::configs(&d, ctx.pick(3, 8), ctx.seed);
			for cfg in cfgs.iter() {
				k += 1;
				if !ctx.mine(k) {
					continue;
				}
				let seed = ctx.seed ^ k << 8;
				let cs = long_candles(total, seed);
				let before: std::collections::BTreeSet<String> = r.viol.keys().cloned().collect();
				c05::check(true, true, &d, cfg.as_ref(), &cs, "long", seed, 99, 0, r);
				// re-key what the two oracles reported under this property
				let new: Vec<String> = r.viol.keys().filter(|s| !before.contains(*s) && (s.starts_with("C05|") || s.starts_with("C06|"))).cloned().collect();
				for sig in new {
					if let Some(v) = r.viol.remove(&sig) {
						let step = v.2["step"].as_u64().unwrap_or(0);
						r.viol.insert(format!("C07|indicator|{}|decade{}", &sig[4..], decade(step)), v);
					}
				}
				r.cell(&format!("indicator-long:{}", d.name));
				r.max("longest candle stream (steps)", total as f64);
			}
		}
		c05::DOC_CHECKS.store(true, std::sync::atomic::Ordering::Relaxed);
	}
	if ctx.mine(0) {
		r.note("ParabolicSAR.trend_inc (u32) saturates only after 4e9 monotone steps: out of reach of any run here");
		r.sample(|| json!({"method": "WMA", "len": 7, "steps": t_small, "regimes": "volatile, vol->flat->vol, scale jumps 1e-6..1e6, grid, plateaus, constant, signed, ramps, big-mean, ties (20000 steps each, repeating)", "oracle": "from-scratch reference at every step; on grid-only runs a position-independent tolerance"}));
	}
}
