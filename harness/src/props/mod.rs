use crate::rep::Report;
use crate::Ctx;

pub mod c01;
pub mod c02;
pub mod c04;
pub mod c05;
pub mod c07;
pub mod c08;
pub mod c09;
pub mod c10;
pub mod c11;
pub mod c12;
pub mod c13;
pub mod c14;
pub mod c15;
pub mod c16;
pub mod c17;
pub mod c18;
pub mod c19;
pub mod c20;

pub fn run(prop: &str, ctx: &Ctx, r: &mut Report) -> bool {
	match prop {
		"C01" => c01::run(ctx, r),
		"C02" => c02::run_c02(ctx, r),
		"C03" => c02::run_c03(ctx, r),
		"C04" => c04::run(ctx, r),
		"C05" => c05::run_c05(ctx, r),
		"C06" => c05::run_c06(ctx, r),
		"C07" => c07::run(ctx, r),
		"C08" => c08::run(ctx, r),
		"C09" => c09::run(ctx, r),
		"C10" => c10::run(ctx, r),
		"C11" => c11::run(ctx, r),
		"C12" => c12::run(ctx, r),
		"C13" => c13::run(ctx, r),
		"C14" => c14::run(ctx, r),
		"C15" => c15::run(ctx, r),
		"C16" => c16::run(ctx, r),
		"C17" => c17::run(ctx, r),
		"C18" => c18::run(ctx, r),
		"C19" | "PROGRAMS" => c19::run(ctx, r),
		"C20W" => c20::run(ctx, r),
		_ => return false,
	}
	true
}
