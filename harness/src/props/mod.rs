use crate::rep::Report;
use crate::Ctx;

pub mod c01;

pub fn run(prop: &str, ctx: &Ctx, r: &mut Report) -> bool {
	match prop {
		"C01" => c01::run(ctx, r),
		_ => return false,
	}
	true
}
