//! C08 — the construction value acts as an infinite constant prehistory.
//! Metamorphic, no reference: (i) constant input gives constant output without drift,
//! (ii) leading copies of the first element do not change later outputs, (iii) the same for indicators.
use crate::ap::{C, EPS};
use crate::errm::{out_scale, radius};
use crate::gen;
use crate::icfg;
use crate::reg::{self, res_bits, Class, In, InKind, MDesc, Num, Out, Par, ParKind};
use crate::rep::{fj, guard, Report};
use crate::rng::Rng;
use crate::work::{all_lengths, lengths, params_for, show_in, show_ins, stream_for};
use crate::{Ctx, P, V};
use serde_json::{json, Value};
use yata::core::{Candle, IndicatorResult};

const F32: bool = std::mem::size_of::<V>() == 4;

fn exempt(m: &MDesc, par: &Par) -> bool {
	// explicitly cumulative or counting methods
	match m.name {
		"CollapseTimeframe" | "Renko" => true,
		"Integral" | "ADI" => matches!(par, Par::L(0)),
		_ => false,
	}
}

fn const_values() -> Vec<f64> {
	let mut v: Vec<f64> = vec![0.0, -0.0, 1.0, -1.0, 0.1, 1.0 / 3.0, -3.7, 16.3251 * 7.0, 1e-3, 1e6, -1e6];
	if F32 {
		v.extend([1e-30, 1e30, -1e-20, 1e10]);
	} else {
		v.extend([1e-300, -1e-300, 1e-150, 1e150, -1e150, 1e300, 1e-10, 1e10, 5e-324, 1e100]);
	}
	v.into_iter().map(gen::q).collect()
}

fn const_input(m: &MDesc, v: f64, rng: &mut Rng) -> Option<In> {
	Some(match m.inp {
		InKind::V => In::V(v as V),
		InKind::P => {
			if m.name == "VWMA" {
				In::P(v as V, gen::q(*rng.pick(&[1.0, 0.1, 1000.0, 0.25])) as V)
			} else {
				In::P(v as V, gen::q(v * *rng.pick(&[1.0, 0.5, 2.0, -1.0])) as V)
			}
		}
		InKind::C => {
			let p = v.abs();
			if !(p > 0.0) || !(p * 1.5).is_finite() {
				return None;
			}
			// the next representable value above p (in the crate's ValueType): a candle whose range is one ulp
			let up = V::from_bits((p as V).to_bits() + 1) as f64;
			let lo = (p as V) as f64;
			let (o, h, l, c) = match rng.below(6) {
				0 => (p, p, p, p),
				4 => (lo, up, lo, up),
				5 => (up, up, lo, lo),
				1 => (p, gen::q(p * 1.25), gen::q(p * 0.75), gen::q(p * 1.125)),
				2 => (gen::q(p * 0.9), gen::q(p * 1.1), gen::q(p * 0.9), gen::q(p * 1.1)),
				_ => (gen::q(p * 1.01), gen::q(p * 1.02), gen::q(p * 0.5), gen::q(p * 0.5)),
			};
			let vol = *rng.pick(&[0.0, 1.0, 1234.5, 1e9]);
			In::C(gen::mk(o, h, l, c, vol))
		}
	})
}

fn in_mag(x: &In) -> f64 {
	match x {
		In::V(v) => (*v as f64).abs(),
		In::P(a, b) => (*a as f64).abs().max((*b as f64).abs()),
		In::C(c) => (c.high as f64).abs().max((c.volume as f64).abs()),
	}
}

/// tolerance for "constant up to rounding, free of drift": a fixed number of roundings at the output scale
fn const_tol(m: &MDesc, n: f64, v: &In) -> f64 {
	let mag = match (m.name, v) {
		("VWMA", In::P(a, _)) => (*a as f64).abs(),
		("ADI", In::C(c)) => (c.volume as f64).abs(),
		_ => in_mag(v),
	};
	let s = out_scale(m.name, n, mag);
	match m.name {
		// sqrt amplifies a rounding residue of the variance: sqrt(C eps n) * |v|
		"StDev" => 4.0 * (C * EPS * n).sqrt() * mag + f64::MIN_POSITIVE,
		_ => 16.0 * C * EPS * s + f64::MIN_POSITIVE,
	}
}

fn out_close(a: &Out, b: &Out, tol: f64, exact: bool) -> bool {
	if a.same_num(b) {
		return true;
	}
	if exact {
		return false;
	}
	let (fa, fb) = (a.floats(), b.floats());
	if fa.len() != fb.len() || fa.is_empty() {
		return false;
	}
	fa.iter().zip(fb.iter()).all(|(x, y)| (x.is_nan() && y.is_nan()) || x == y || (x - y).abs() <= tol)
}

/// (i) constant input -> constant output for all i, not drifting
fn constancy(m: &MDesc, len: u64, v: f64, steps: usize, seed: u64, r: &mut Report) {
	let mut rng = Rng::new(seed);
	let par = params_for(m, len, &mut rng);
	if exempt(m, &par) {
		return;
	}
	let Some(x) = const_input(m, v, &mut rng) else { return };
	r.case_named(m.name, &[8, reg::json_hash(&par.show()), reg::ins_hash(std::slice::from_ref(&x)), steps as u64]);
	let case = |i: usize, first: &Out, got: &Out| json!({"method": m.name, "params": par.show(), "len": len, "value": v, "steps": steps, "seed": seed, "constant_input": show_in(&x), "step": i, "first_output": first.show(), "output": got.show(), "kind": "constancy"});
	let res = guard(|| {
		let mut inst = match (m.ctor)(&par, &x) {
			Ok(i) => i,
			Err(_) => return None,
		};
		let first = inst.next(&x);
		let tol = const_tol(m, par.len() as f64, &x);
		let exact = m.num == Num::Exact;
		let mut worst = 0.0f64;
		let mut bad: Option<(usize, Out)> = None;
		for i in 1..steps {
			let o = inst.next(&x);
			if !out_close(&first, &o, tol, exact) && bad.is_none() {
				bad = Some((i, o.clone()));
			}
			if let (Some(a), Some(b)) = (first.as_f(), o.as_f()) {
				if (a - b).abs().is_finite() && tol > 0.0 {
					worst = worst.max((a - b).abs() / tol);
				}
			}
		}
		Some((first, bad, worst))
	});
	match res {
		Ok(Some((first, bad, worst))) => {
			r.eval(steps as u64);
			r.max(&format!("constancy dev/tol {}", m.name), worst);
			if let Some((i, o)) = bad {
				r.violate(&format!("C08|{}|constant-input-not-constant-output", m.name), "feeding the construction value does not give a constant output", || case(i, &first, &o));
			}
			r.cell(&format!("constancy:{}", m.name));
		}
		Ok(None) => {}
		Err(_) => {} // panics are C10's concern
	}
}

/// (ii) prefix invariance
fn prefix_invariance(m: &MDesc, len: u64, class: usize, seed: u64, r: &mut Report) {
	let mut rng = Rng::new(seed ^ 0x9999);
	let par = params_for(m, len, &mut rng);
	if exempt(m, &par) {
		return;
	}
	r.case_named(m.name, &[81, reg::json_hash(&par.show()), class as u64, seed]);
	let n = par.len().max(1);
	let steps = (3 * n + 40).min(420);
	let xs = stream_for(m, class, seed, steps, n);
	let init = xs[0].clone();
	let mut mag = 0.0f64;
	for x in &xs {
		mag = mag.max(in_mag(x));
	}
	let base = guard(|| {
		let mut a = (m.ctor)(&par, &init).ok()?;
		Some(xs.iter().map(|x| a.next(x)).collect::<Vec<Out>>())
	});
	let Ok(Some(base)) = base else { return };
	for k in [1usize, 2, n.saturating_sub(1).max(1), n, n + 1, 3 * n] {
		let res = guard(|| {
			let mut b = (m.ctor)(&par, &init).ok()?;
			for _ in 0..k {
				b.next(&init);
			}
			Some(xs.iter().map(|x| b.next(x)).collect::<Vec<Out>>())
		});
		let Ok(Some(got)) = res else { continue };
		r.eval(xs.len() as u64);
		let exact = m.num == Num::Exact;
		let mut first_bad = None;
		for i in 0..xs.len() {
			let t = (i + k + 1) as f64;
			let s = out_scale(m.name, n as f64, mag);
			let mut tol = 2.0 * radius(m.class, n as f64, t, s, 8.0);
			if m.name == "StDev" {
				tol = 2.0 * (radius(Class::Accum, n as f64, t, mag * mag, 8.0)).sqrt();
			}
			if matches!(m.name, "CCI" | "RateOfChange" | "TSI" | "VWMA" | "Vidya") {
				// ratios: conditioning depends on the denominator; judged by C02/C03, here only a coarse bound
				tol = tol.max(64.0 * EPS.sqrt() * mag.max(1.0));
			}
			if !out_close(&base[i], &got[i], tol, exact) {
				first_bad = Some((i, tol));
				break;
			}
		}
		if let Some((i, tol)) = first_bad {
			r.violate(&format!("C08|{}|leading-copies-change-later-outputs", m.name), "a stream that begins with extra copies of its first element gives different later outputs", || {
				json!({"method": m.name, "params": par.show(), "leading_copies": k, "step": i, "without_copies": base[i].show(), "with_copies": got[i].show(), "tolerance": fj(tol), "stream_class": class, "seed": seed, "len": len, "first_inputs": show_ins(&xs[..xs.len().min(10)]), "kind": "prefix"})
			});
		}
		r.cell(&format!("prefix:{}", m.name));
	}
}

// ---------------------------------------------------------------------------------------------
// indicators

fn cfg_is_cumulative(name: &str, cfg: &Value) -> bool {
	name == "ChaikinOscillator" && cfg.get("window").and_then(Value::as_u64) == Some(0)
}

/// magnitude of the quantities an indicator may be built from: prices, volume, price*volume
fn cmag(c: &Candle) -> f64 {
	let p = c.high as f64;
	let v = (c.volume as f64).abs();
	p.max(v).max(p * v)
}

fn ind_tol(vals: &[f64], price: f64) -> f64 {
	let s = vals.iter().fold(price.abs(), |a, b| a.max(b.abs()));
	// values: a fixed relative allowance (sqrt-amplified residues of variances included)
	(64.0 * (C * EPS * 256.0).sqrt() * 1e-3 + 1e3 * C * EPS) * s + f64::MIN_POSITIVE
}

fn values_bit_equal(a: &IndicatorResult, b: &IndicatorResult) -> bool {
	a.values().len() == b.values().len() && a.values().iter().zip(b.values().iter()).all(|(x, y)| x.to_bits() == y.to_bits())
}

/// `judge_signals`: signals are compared only when no value has moved at the rounding level recently —
/// on constant input every crossing/reversal decision is a tie in exact arithmetic, so a value that
/// moved by an ulp puts the deciding quantity "within the rounding allowance of its threshold" (C06's exemption)
fn res_close(a: &IndicatorResult, b: &IndicatorResult, price: f64, judge_signals: bool) -> Result<(), String> {
	if a.signals().len() != b.signals().len() || a.values().len() != b.values().len() {
		return Err("shape".into());
	}
	for (i, (x, y)) in a.signals().iter().zip(b.signals().iter()).enumerate() {
		if judge_signals && !a.values().iter().chain(b.values().iter()).any(|v| v.is_nan()) && reg::action_code(*x) != reg::action_code(*y) {
			return Err(format!("signal{i}"));
		}
	}
	let av: Vec<f64> = a.values().iter().map(|x| *x as f64).collect();
	let tol = ind_tol(&av, price);
	// undefined formula (NaN value): signals derived from it are unspecified
	for (i, (x, y)) in a.values().iter().zip(b.values().iter()).enumerate() {
		let (x, y) = (*x as f64, *y as f64);
		if !((x.is_nan() && y.is_nan()) || x == y || (x - y).abs() <= tol) {
			return Err(format!("value{i}"));
		}
	}
	Ok(())
}

fn show_res(x: &IndicatorResult) -> Value {
	json!({"values": x.values().iter().map(|v| fj(*v as f64)).collect::<Vec<_>>(), "signals": x.signals().iter().map(|s| format!("{s:?}")).collect::<Vec<_>>()})
}

/// every moving-average field of the configuration is of a kind that is an exact fixed point on constant input
fn strict_kinds(cfg: &Value) -> bool {
	const EXACT: [&str; 9] = ["sma", "smm", "ema", "dma", "tma", "dema", "tema", "trima", "wsma"];
	let mut any = false;
	let mut all = true;
	if let Some(o) = cfg.as_object() {
		for v in o.values() {
			if let Some(m) = v.as_object() {
				if m.len() == 1 {
					let k = m.keys().next().unwrap();
					if crate::icfg::MA_KEYS.contains(&k.as_str()) {
						any = true;
						all &= EXACT.contains(&k.as_str());
					}
				}
			}
		}
	}
	any && all
}

fn indicator_constancy(d: &reg::IDesc, cfg: &dyn reg::DC, c: &Candle, steps: usize, r: &mut Report) {
	let cfgv = cfg.ser().unwrap_or(Value::Null);
	if cfg_is_cumulative(d.name, &cfgv) {
		return;
	}
	r.case_named(d.name, &[82, reg::json_hash(&cfgv), reg::candle_hash(c), steps as u64]);
	let res = guard(|| {
		let mut i = cfg.init(c).ok()?;
		let first = i.next(c);
		// the parabolic SAR's documented trend value goes from 'no trend' to its initial trend on the first candle
		let mut reference = if d.name == "ParabolicSAR" { i.next(c) } else { first };
		let mut bad = None;
		let mut values_moved = false;
		let mut exempt = 0u64;
		// configurations whose averaging kinds are exact fixed points on constant input (running sums that add x - x = 0,
		// recursions that add alpha * (x - x) = 0, selections): there every value must stay bit-identical, so a value that
		// moves by an ulp is itself the sign of a seed that disagrees with what next() feeds, and signals are judged throughout
		// (only for indicators whose other internals are exact on a constant candle as well: selections, differences and one
		// deterministic ratio; a windowed running sum (s + x) - x is not an exact fixed point)
		let strict = matches!(d.name, "StochasticOscillator" | "MACD" | "AwesomeOscillator") && strict_kinds(&cfgv);
		for k in 1..steps {
			let o = i.next(c);
			if strict && !values_bit_equal(&reference, &o) {
				bad = Some((k, "value-not-bit-constant(exact-kinds)".to_string(), reference, o));
				break;
			}
			values_moved |= !values_bit_equal(&reference, &o);
			if let Err(what) = res_close(&reference, &o, cmag(c), !values_moved) {
				bad = Some((k, what, reference, o));
				break;
			}
			if values_moved && res_close(&reference, &o, cmag(c), true).is_err() {
				exempt += 1;
			}
			let _ = &mut reference;
		}
		Some((bad, exempt))
	});
	match res {
		Ok(Some((bad, exempt))) => {
			r.eval(steps as u64);
			r.cell(&format!("indicator-constancy:{}", d.name));
			r.count("constancy_signal_steps_exempt_because_a_value_moved_by_rounding", exempt);
			if let Some((k, what, first, o)) = bad {
				r.violate(&format!("C08|{}|constant-candle-not-constant-output|{what}", d.name), "an indicator fed its initial candle forever does not give a constant result", || {
					json!({"indicator": d.name, "config": cfgv, "candle": format!("{c:?}"), "candle_values": [c.open as f64, c.high as f64, c.low as f64, c.close as f64, c.volume as f64], "steps": steps, "step": k, "first": show_res(&first), "got": show_res(&o), "kind": "indicator-constancy"})
				});
			}
		}
		_ => {}
	}
}

fn indicator_prefix(d: &reg::IDesc, cfg: &dyn reg::DC, cs: &[Candle], stream: (usize, u64), r: &mut Report) {
	let cfgv = cfg.ser().unwrap_or(Value::Null);
	if cfg_is_cumulative(d.name, &cfgv) {
		return;
	}
	r.case_named(d.name, &[83, reg::json_hash(&cfgv), reg::candles_hash(cs)]);
	let base = guard(|| {
		let mut i = cfg.init(&cs[0]).ok()?;
		Some(cs.iter().map(|c| i.next(c)).collect::<Vec<_>>())
	});
	let Ok(Some(base)) = base else { return };
	for k in [1usize, 2, 13, 60] {
		let got = guard(|| {
			let mut i = cfg.init(&cs[0]).ok()?;
			for _ in 0..k {
				i.next(&cs[0]);
			}
			Some(cs.iter().map(|c| i.next(c)).collect::<Vec<_>>())
		});
		let Ok(Some(got)) = got else { continue };
		r.eval(cs.len() as u64);
		if std::env::var("YV_TRACE").is_ok() {
			for i in 0..cs.len().min(80) {
				eprintln!("k={k} i={i} candle={:?} A={:?} B={:?}", cs[i], base[i].values(), got[i].values());
			}
		}
		// SAR: the first real step differs by statement (trend 0 -> initial trend); compare from the second step
		let from = if d.name == "ParabolicSAR" { 1 } else { 0 };
		let mut last_value_diff: Option<usize> = None;
		let smag = cs.iter().fold(0.0f64, |m, c| m.max(cmag(c)));
		for i in 0..cs.len() {
			if !values_bit_equal(&base[i], &got[i]) {
				last_value_diff = Some(i);
			}
			if i < from {
				continue;
			}
			// Signals are not judged here: with leading copies every crossing/reversal decision taken during the
			// constant phase is a tie in exact arithmetic (value == seed of the detector), and whether the
			// detector's seed differs from the constant-phase value by a rounding error is not observable
			// without a reference. Signal prefix-invariance is decided by C06's oracle on streams with
			// leading copies (DESIGN §4 C08); the constancy clause above does judge signals.
			let judge = false;
			let _ = last_value_diff;
			if let Err(what) = res_close(&base[i], &got[i], smag, judge) {
				r.violate(&format!("C08|{}|leading-copies-change-later-outputs|{what}", d.name), "leading copies of the first candle change later results", || {
					json!({"indicator": d.name, "config": cfgv, "leading_copies": k, "step": i, "without": show_res(&base[i]), "with": show_res(&got[i]), "kind": "indicator-prefix", "stream_class": stream.0, "stream_seed": stream.1, "stream_len": cs.len()})
				});
				break;
			}
		}
		r.cell(&format!("indicator-prefix:{}", d.name));
	}
}

fn replay(case: &Value, r: &mut Report) {
	let kind = case["kind"].as_str().unwrap_or("");
	match kind {
		"indicator-prefix" | "indicator-constancy" => {
			let d = reg::indicator(case["indicator"].as_str().unwrap_or(""));
			let Ok(cfg) = (d.default)().de(&case["config"]) else {
				r.inconclusive("replay: configuration does not deserialize");
				return;
			};
			if kind == "indicator-prefix" {
				let cs = gen::candles(case["stream_class"].as_u64().unwrap_or(0) as usize, case["stream_seed"].as_u64().unwrap_or(0), case["stream_len"].as_u64().unwrap_or(300) as usize, 14);
				indicator_prefix(&d, cfg.as_ref(), &cs, (0, 0), r);
			} else {
				let v: Vec<f64> = case["candle_values"].as_array().map(|a| a.iter().map(|x| x.as_f64().unwrap_or(f64::NAN)).collect()).unwrap_or_default();
				if v.len() == 5 {
					indicator_constancy(&d, cfg.as_ref(), &gen::mk(v[0], v[1], v[2], v[3], v[4]), case["steps"].as_u64().unwrap_or(600) as usize, r);
				}
			}
		}
		_ => {
			// method cases are regenerated from their seeds
			let m = reg::method(case["method"].as_str().unwrap_or(""));
			let len = case["len"].as_u64().unwrap_or(1);
			let seed = case["seed"].as_u64().unwrap_or(0);
			if kind == "prefix" {
				prefix_invariance(&m, len, case["stream_class"].as_u64().unwrap_or(0) as usize, seed, r);
			} else {
				constancy(&m, len, case["value"].as_f64().unwrap_or(0.0), case["steps"].as_u64().unwrap_or(2000) as usize, seed, r);
			}
		}
	}
}

pub fn run(ctx: &Ctx, r: &mut Report) {
	if let Some(rp) = &ctx.replay {
		replay(&rp["case"], r);
		return;
	}
	let ms = reg::methods();
	let vals = const_values();
	let steps = ctx.pick(2000usize, 20000);
	let mut k = 0u64;
	for m in &ms {
		let ls = if ctx.thorough || true { all_lengths(m) } else { lengths(m, 30, ctx.seed) };
		for len in ls {
			k += 1;
			if !ctx.mine(k) {
				continue;
			}
			// constant values: 3 per length in quick (rotated), all in thorough for a spread of lengths
			let nv = if ctx.thorough && (len <= 8 || len % 16 == 0 || len >= 250) { vals.len() } else { 3 };
			for j in 0..nv {
				let v = vals[(j + (k as usize) * 3 + ctx.seed as usize) % vals.len()];
				constancy(m, len, v, steps, ctx.seed ^ k << 8 ^ j as u64, r);
			}
			let nclass = ctx.pick(1, 3);
			for c in 0..nclass {
				prefix_invariance(m, len, ((k as usize) + c + ctx.seed as usize) % 8, ctx.seed ^ k << 12 ^ c as u64, r);
			}
		}
	}
	// long constancy runs (drift): 1e6 steps at a few lengths in thorough
	if ctx.thorough {
		for m in &ms {
			for (j, len) in [2u64, 7, 14, 50, 127, 254].into_iter().enumerate() {
				k += 1;
				if !ctx.mine(k) || len < m.min_len || len > m.max_len.max(1) && m.par != ParKind::U {
					continue;
				}
				constancy(m, len, vals[(j + 4) % vals.len()], 1_000_000, ctx.seed ^ k, r);
			}
		}
	}
	for d in reg::indicators() {
		let cfgs = icfg::configs(&d, ctx.pick(24, 60), ctx.seed);
		for (ci, cfg) in cfgs.iter().enumerate() {
			k += 1;
			if !ctx.mine(k) {
				continue;
			}
			let mut rng = Rng::new(ctx.seed ^ k);
			for price in [1.0, 10.3, 1e-3, 12345.678, 0.1] {
				if let Some(In::C(c)) = const_input(&reg::method("TR"), gen::q(price), &mut rng) {
					indicator_constancy(&d, cfg.as_ref(), &c, ctx.pick(600, 5000), r);
				}
			}
			// clean streams only: no flat stretches / zero ranges / zero volume, whose ratios are undefined within
			// the allowance (those regimes are judged by the reference-based monitors C05/C12)
			let (scl, sseed) = (6usize, ctx.seed ^ k << 4);
			let cs = gen::candles(scl, sseed, 300, 14);
			indicator_prefix(&d, cfg.as_ref(), &cs, (scl, sseed), r);
			if ci == 0 && d.name == "Aroon" {
				r.sample(|| json!({"indicator": d.name, "config": cfg.ser().unwrap_or_default(), "check": "constant candle x600 -> constant result; 1/2/13/60 leading copies of the first candle -> same later results"}));
			}
		}
	}
	if ctx.mine(0) {
		r.sample(|| json!({"method": "WMA", "len": 9, "constant": 0.1, "steps": steps, "check": "every output equals the first within 16*C*eps*|v|"}));
	}
}
