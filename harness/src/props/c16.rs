//! C16 — Action is a consistent signed-strength algebra. Exhaustive over the finite parts.
use crate::rep::{guard, Report};
use crate::rng::Rng;
use crate::{Ctx, V};
use serde_json::json;
use std::cmp::Ordering;
use yata::core::Action;

fn all_actions() -> Vec<Action> {
	let mut v = Vec::with_capacity(513);
	for x in 0..=255u8 {
		v.push(Action::Buy(x));
	}
	v.push(Action::None);
	for x in 0..=255u8 {
		v.push(Action::Sell(x));
	}
	v
}

/// signed strength in 1/255 units, None counting as zero
fn s(a: Action) -> i32 {
	match a {
		Action::Buy(x) => x as i32,
		Action::None => 0,
		Action::Sell(x) => -(x as i32),
	}
}
fn variant(a: Action) -> &'static str {
	match a {
		Action::Buy(_) => "Buy",
		Action::None => "None",
		Action::Sell(_) => "Sell",
	}
}
fn same(a: Action, b: Action) -> bool {
	variant(a) == variant(b) && s(a) == s(b)
}
fn show(a: Action) -> String {
	match a {
		Action::Buy(x) => format!("Buy({x})"),
		Action::None => "None".into(),
		Action::Sell(x) => format!("Sell({x})"),
	}
}

fn unary(r: &mut Report) {
	for a in all_actions() {
		r.eval(1);
		r.case(&[16, s(a) as u64, variant(a).len() as u64]);
		let ra = a.ratio();
		// ratio in [-1,1], matches the strength
		match (a, ra) {
			(Action::None, None) => {}
			(Action::None, Some(_)) | (_, None) => r.violate("C16|ratio|none-mismatch", "ratio() None-ness differs from the action", || json!({"a": show(a)})),
			(_, Some(x)) => {
				let x = x as f64;
				if !(x >= -1.0 && x <= 1.0) {
					r.violate("C16|ratio|out-of-range", "ratio outside [-1,1]", || json!({"a": show(a), "ratio": x}));
				}
				let want = s(a) as f64 / 255.0;
				if (x - want).abs() > 2.0 * (V::EPSILON as f64) {
					r.violate("C16|ratio|wrong-value", "ratio is not strength/255", || json!({"a": show(a), "ratio": x}));
				}
				// from(ratio(a)) == a
				let back = Action::from(x as V);
				if !same(back, a) {
					r.violate("C16|from-ratio|not-identity", "from(ratio(a)) != a", || json!({"a": show(a), "back": show(back)}));
				}
				let back2 = Action::from(Some(x as V));
				if !same(back2, a) {
					r.violate("C16|from-option-ratio|not-identity", "from(Some(ratio(a))) != a", || json!({"a": show(a)}));
				}
			}
		}
		// negation
		let n = -a;
		if !same(-n, a) {
			r.violate("C16|neg|not-involution", "-(-a) != a", || json!({"a": show(a)}));
		}
		if s(n) != -s(a) || (variant(a) == "None") != (variant(n) == "None") {
			r.violate("C16|neg|ratio", "ratio(-a) != -ratio(a)", || json!({"a": show(a), "neg": show(n)}));
		}
		// analog / sign
		let sg = s(a).signum() as i8;
		if a.analog() != sg {
			r.violate("C16|analog|sign-mismatch", "analog() is not the sign of the ratio", || json!({"a": show(a), "analog": a.analog()}));
		}
		let want = if variant(a) == "None" { None } else { Some(sg) };
		if a.sign() != want {
			r.violate("C16|sign|mismatch", "sign() is not the sign of the ratio", || json!({"a": show(a), "sign": a.sign()}));
		}
		let i: i8 = a.into();
		if i != sg {
			r.violate("C16|into-i8|mismatch", "i8::from(action) wrong", || json!({"a": show(a)}));
		}
		if a.is_none() != (variant(a) == "None") || a.is_some() == a.is_none() {
			r.violate("C16|is_none|mismatch", "is_none/is_some wrong", || json!({"a": show(a)}));
		}
		let val = a.value();
		if val != (if variant(a) == "None" { None } else { Some(s(a).unsigned_abs() as u8) }) {
			r.violate("C16|value|mismatch", "value() wrong", || json!({"a": show(a)}));
		}
		// reflexivity
		if !(a == a) {
			r.violate("C16|eq|not-reflexive", "a != a", || json!({"a": show(a)}));
		}
		let byref: Action = (&a).into();
		if !same(byref, a) {
			r.violate("C16|from-ref|mismatch", "From<&Action>", || json!({"a": show(a)}));
		}
	}
	r.cell("unary:all-513");
	// i8
	let mut prev = i32::MIN;
	for i in i8::MIN..=i8::MAX {
		r.eval(1);
		r.case(&[161, i as u64]);
		let a = Action::from(i);
		let a2 = Action::from_analog(i);
		let a3 = Action::from(Some(i));
		let a4: Action = (&i).into();
		if !same(a, a2) || !same(a, a3) || !same(a, a4) {
			r.violate("C16|from-i8|variants-disagree", "from(i8), from_analog, from(Some), from(&) disagree", || json!({"i": i}));
		}
		let want = match i.cmp(&0) {
			Ordering::Greater => Action::BUY_ALL,
			Ordering::Less => Action::SELL_ALL,
			Ordering::Equal => Action::None,
		};
		if !same(a, want) {
			r.violate("C16|from-i8|wrong", "from(i8) is not full strength with the sign of i", || json!({"i": i, "got": show(a)}));
		}
		if s(a) < prev {
			r.violate("C16|from-i8|not-monotone", "from(i8) not monotone", || json!({"i": i}));
		}
		prev = s(a);
	}
	if !same(Action::from(None::<i8>), Action::None) || !same(Action::from(None::<f64>), Action::None) || !same(Action::from(None::<f32>), Action::None) {
		r.violate("C16|from-none|wrong", "from(None) is not Action::None", || json!({}));
	}
	if !same(Action::from(true), Action::BUY_ALL) || !same(Action::from(false), Action::None) || !same(Action::default(), Action::None) {
		r.violate("C16|from-bool|wrong", "from(bool)/default wrong", || json!({}));
	}
	r.cell("i8:all-256");
}

fn pairs(ctx: &Ctx, r: &mut Report) {
	let acts = all_actions();
	for (i, &a) in acts.iter().enumerate() {
		if !ctx.mine(i as u64) {
			continue;
		}
		for &b in &acts {
			r.eval(1);
			r.case(&[162, s(a) as u64, variant(a).len() as u64, s(b) as u64, variant(b).len() as u64]);
			// subtraction
			match guard(|| a - b) {
				Ok(d) => {
					let want = (s(a) - s(b)).clamp(-255, 255);
					if s(d) != want {
						let sig = format!("C16|sub|wrong-ratio|lhs={},rhs={}", variant(a), variant(b));
						r.violate(&sig, "ratio(a-b) != clamp(ratio(a)-ratio(b))", || json!({"a": show(a), "b": show(b), "got": show(d), "want_strength": want}));
					}
				}
				Err(p) => r.violate(&format!("C16|sub|panic:{}", p.class()), &p.msg, || json!({"a": show(a), "b": show(b)})),
			}
			// equality: symmetric; equal actions have equal ratios (None counts as its own class)
			let e = a == b;
			if e != (b == a) {
				r.violate("C16|eq|not-symmetric", "a==b differs from b==a", || json!({"a": show(a), "b": show(b)}));
			}
			if (a != b) == e {
				r.violate("C16|eq|ne-inconsistent", "!= is not the negation of ==", || json!({"a": show(a), "b": show(b)}));
			}
			if e && (s(a) != s(b) || (variant(a) == "None") != (variant(b) == "None")) {
				r.violate("C16|eq|equal-with-different-ratio", "a==b but their ratios differ", || json!({"a": show(a), "b": show(b)}));
			}
			if !e && same(a, b) {
				r.violate("C16|eq|identical-not-equal", "identical actions compare unequal", || json!({"a": show(a)}));
			}
			// ordering consistent with equality
			let c = a.cmp(&b);
			if a.partial_cmp(&b) != Some(c) {
				r.violate("C16|ord|partial-cmp-differs", "partial_cmp != Some(cmp)", || json!({"a": show(a), "b": show(b)}));
			}
			if c != b.cmp(&a).reverse() {
				r.violate("C16|ord|not-antisymmetric", "cmp(a,b) != reverse(cmp(b,a))", || json!({"a": show(a), "b": show(b)}));
			}
			if e != (c == Ordering::Equal) {
				let zero = s(a) == 0 && s(b) == 0 && variant(a) != "None" && variant(b) != "None";
				let sig = if zero { "C16|ord|eq-vs-cmp|Buy(0)-vs-Sell(0)".to_string() } else { "C16|ord|eq-vs-cmp|other".to_string() };
				r.violate(&sig, "a==b is not equivalent to cmp(a,b)==Equal", || json!({"a": show(a), "b": show(b), "eq": e, "cmp": format!("{c:?}")}));
			}
			if (a < b) != (c == Ordering::Less) || (a <= b) != (c != Ordering::Greater) {
				r.violate("C16|ord|operators-differ", "< / <= disagree with cmp", || json!({"a": show(a), "b": show(b)}));
			}
		}
	}
	r.cell("pairs:513x513");
}

fn triples(ctx: &Ctx, r: &mut Report) {
	let acts = all_actions();
	// precompute relation matrices
	let n = acts.len();
	let mut eq = vec![false; n * n];
	let mut lt = vec![false; n * n];
	for i in 0..n {
		for j in 0..n {
			eq[i * n + j] = acts[i] == acts[j];
			lt[i * n + j] = acts[i] < acts[j];
		}
	}
	for i in 0..n {
		if !ctx.mine(i as u64) {
			continue;
		}
		for j in 0..n {
			// one case = the row (a, b, every c)
			r.case(&[163, i as u64, j as u64]);
			let eij = eq[i * n + j];
			let lij = lt[i * n + j];
			if !eij && !lij {
				r.eval(n as u64);
				continue;
			}
			for k in 0..n {
				if eij && eq[j * n + k] && !eq[i * n + k] {
					r.violate("C16|eq|not-transitive", "a==b, b==c but a!=c", || json!({"a": show(acts[i]), "b": show(acts[j]), "c": show(acts[k])}));
				}
				if lij && lt[j * n + k] && !lt[i * n + k] {
					r.violate("C16|ord|lt-not-transitive", "a<b, b<c but !(a<c)", || json!({"a": show(acts[i]), "b": show(acts[j]), "c": show(acts[k])}));
				}
			}
			r.eval(n as u64);
		}
	}
	r.cell("triples:513^3");
}

/// the laws of a float conversion; returns the signed strength (None => i32::MIN marker handled by caller)
#[inline]
fn check_float(v: f64, a: Action, kind: &str, r: &mut Report) -> i32 {
	if v.is_nan() {
		if !matches!(a, Action::None) {
			r.violate(&format!("C16|from-{kind}|nan-not-none"), "NaN did not become Action::None", || json!({"bits": format!("{:#x}", v.to_bits()), "got": show(a)}));
		}
		return 0;
	}
	if matches!(a, Action::None) {
		let class = if v.is_infinite() { "infinite" } else { "finite" };
		r.violate(&format!("C16|from-{kind}|none-for-{class}"), "a non-NaN value became Action::None", || json!({"v": format!("{v:e}")}));
		return 0;
	}
	let st = s(a);
	let c = v.clamp(-1.0, 1.0);
	let ratio = st as f64 / 255.0;
	if (ratio - c).abs() > 0.5 / 255.0 + 1e-12 {
		r.violate(&format!("C16|from-{kind}|not-nearest"), "|ratio(from(v)) - clamp(v)| > 0.5/255", || json!({"v": format!("{v:e}"), "got": show(a)}));
	}
	// sign preserved (the sign bit decides the variant, also for zeros)
	let neg = v.is_sign_negative();
	if neg != matches!(a, Action::Sell(_)) {
		r.violate(&format!("C16|from-{kind}|sign-not-preserved"), "sign of the value is not the direction of the action", || json!({"v": format!("{v:e}"), "got": show(a)}));
	}
	st
}

fn f32_order_to_bits(k: u64) -> u32 {
	// k in 0 .. 2^32 enumerates all f32 in increasing order of the bit patterns' numeric value:
	// negative NaNs, -inf .. -0, +0 .. +inf, positive NaNs
	if k < 0x8000_0000 {
		(0xFFFF_FFFFu64 - k) as u32
	} else {
		(k - 0x8000_0000) as u32
	}
}

fn floats32(ctx: &Ctx, r: &mut Report) {
	let total: u64 = 1 << 32;
	let chunks = 4096u64;
	let per = total / chunks;
	let stride: u64 = if ctx.thorough { 1 } else { 16 };
	let mut rng = Rng::new(ctx.seed ^ 0xF32);
	for ch in 0..chunks {
		if !ctx.mine(ch) {
			continue;
		}
		let start = ch * per;
		let off = if stride > 1 { rng.below(stride) } else { 0 };
		// previous strength (from the element just before the chunk) for the monotonicity check
		let mut prev: Option<i32> = None;
		if start > 0 {
			let pv = f32::from_bits(f32_order_to_bits(start - 1));
			if !pv.is_nan() {
				prev = Some(s(Action::from(pv)));
			}
		}
		let mut k = start + off;
		let mut n = 0u64;
		while k < start + per {
			let x = f32::from_bits(f32_order_to_bits(k));
			r.case(&[164, x.to_bits() as u64]);
			let a = Action::from(x);
			let st = check_float(x as f64, a, "f32", r);
			if !x.is_nan() {
				if let Some(p) = prev {
					if st < p {
						r.violate("C16|from-f32|not-monotone", "from(f32) is not monotone", || json!({"v": format!("{x:e}"), "got": show(a)}));
					}
				}
				prev = Some(st);
			}
			n += 1;
			k += stride;
		}
		r.eval(n);
	}
	r.cell(if ctx.thorough { "f32:all-2^32-bit-patterns" } else { "f32:2^28-stratified" });
	if ctx.thorough {
		r.note("f32 conversion checked for all 2^32 bit patterns (exhaustive)");
	}
}

fn boundaries(r: &mut Report) {
	// every rounding boundary (k+1/2)/255 +- ulps, both signs, f64 and f32; specials
	let mut vals: Vec<f64> = Vec::new();
	for k in 0..=255u32 {
		for base in [(k as f64 + 0.5) / 255.0, k as f64 / 255.0] {
			let mut up = base;
			let mut dn = base;
			vals.push(base);
			for _ in 0..8 {
				up = f64::from_bits(up.to_bits() + 1);
				dn = if dn > 0.0 { f64::from_bits(dn.to_bits() - 1) } else { dn };
				vals.push(up);
				vals.push(dn);
			}
			let b32 = base as f32;
			for d in -4i32..=4 {
				let bits = (b32.to_bits() as i64 + d as i64).max(0) as u32;
				vals.push(f32::from_bits(bits) as f64);
			}
		}
	}
	for e in -1080..=1030 {
		vals.push(2f64.powi(e));
	}
	vals.extend_from_slice(&[0.0, f64::MIN_POSITIVE, 5e-324, 1.0, 1.0 + f64::EPSILON, 1.0 - f64::EPSILON / 2.0, f64::MAX, f64::INFINITY, 0.5, 0.999_999, 1e-3]);
	let mut all: Vec<f64> = Vec::new();
	for v in vals {
		all.push(v);
		all.push(-v);
	}
	all.sort_by(|a, b| a.partial_cmp(b).unwrap());
	let mut prev = i32::MIN;
	for &v in &all {
		r.eval(1);
		r.case(&[165, v.to_bits()]);
		let a = Action::from(v);
		let st = check_float(v, a, "f64", r);
		if st < prev {
			r.violate("C16|from-f64|not-monotone", "from(f64) is not monotone", || json!({"v": format!("{v:e}"), "got": show(a)}));
		}
		prev = st;
		let o = Action::from(Some(v));
		let rf: Action = (&v).into();
		if !same(o, a) || !same(rf, a) {
			r.violate("C16|from-f64|variants-disagree", "from(Some(v)) / from(&v) differ from from(v)", || json!({"v": format!("{v:e}")}));
		}
	}
	// NaN payloads
	for bits in [0x7FF8_0000_0000_0000u64, 0xFFF8_0000_0000_0000, 0x7FF0_0000_0000_0001, 0xFFF0_0000_0000_0001, 0x7FFF_FFFF_FFFF_FFFF] {
		r.eval(1);
		let v = f64::from_bits(bits);
		check_float(v, Action::from(v), "f64", r);
	}
	r.cell("f64:rounding-boundaries+specials");
	r.sample(|| json!({"f64 boundary sample": [format!("{:e}", all[all.len() / 2 + 77]), show(Action::from(all[all.len() / 2 + 77]))]}));
}

fn random64(ctx: &Ctx, r: &mut Report) {
	let n = ctx.pick(200_000u64, 1_000_000u64);
	let mut rng = Rng::new(ctx.seed ^ 0xF64 ^ ctx.shard << 8);
	let mut vals: Vec<f64> = Vec::with_capacity(n as usize);
	for i in 0..n {
		let v = match i % 4 {
			0 => rng.sf() * 1.2,
			1 => f64::from_bits(rng.u64()),
			2 => (rng.below(512) as f64 - 256.0 + rng.sf() * 1e-9) / 255.0 + 0.5 / 255.0,
			_ => rng.sf() * 10f64.powi(rng.range(-20, 20) as i32),
		};
		vals.push(v);
	}
	vals.retain(|v| !v.is_nan());
	vals.sort_by(|a, b| a.partial_cmp(b).unwrap());
	let mut prev = i32::MIN;
	for &v in &vals {
		let a = Action::from(v);
		let st = check_float(v, a, "f64", r);
		if st < prev {
			r.violate("C16|from-f64|not-monotone", "from(f64) is not monotone", || json!({"v": format!("{v:e}"), "got": show(a)}));
		}
		prev = st;
	}
	r.eval(vals.len() as u64);
	r.cell("f64:random-sorted");
}

pub fn run(ctx: &Ctx, r: &mut Report) {
	// conversions and the arithmetic are total: a panic anywhere in a part (even one raised inside core, e.g. an integer
	// overflow check reached from the crate's code) is a violation, reported under the part's name
	fn part(name: &str, r: &mut Report, f: impl FnOnce(&mut Report)) {
		if let Err(p) = guard(|| f(&mut *r)) {
			r.violate(&format!("C16|{name}|panic:{}", p.class()), &format!("an Action conversion / operation panicked: {} ({})", p.msg, p.loc), || json!({"part": name}));
		}
	}
	if ctx.mine(0) {
		part("unary", r, |r| unary(r));
		part("boundaries", r, |r| boundaries(r));
		r.sample(|| json!({"pair": ["Buy(255)", "Sell(255)"], "a-b": show(Action::Buy(255) - Action::Sell(255)), "expected_strength": 255}));
		part("sample", r, |r| r.sample(|| json!({"from(0.3f64)": show(Action::from(0.3f64)), "ratio": Action::from(0.3f64).ratio().map(|x| x as f64)})));
	}
	part("pairs", r, |r| pairs(ctx, r));
	part("triples", r, |r| triples(ctx, r));
	part("from-f32", r, |r| floats32(ctx, r));
	part("from-f64", r, |r| random64(ctx, r));
}
