//! C11 — indicator interface contract: result shape, names, dynamic dispatch, string setters, defaults.
use crate::gen;
use crate::icfg::{self, field_kind, FieldKind, MA_KEYS, SOURCE_NAMES};
use crate::reg::{self, res_bits, DC};
use crate::rep::{guard, Report};
use crate::rng::Rng;
use crate::{Ctx, P};
use serde_json::{json, Map, Value};
use yata::core::{Candle, IndicatorConfig, IndicatorInstance, IndicatorResult};

fn shape_and_names(d: &reg::IDesc, cfg: &dyn DC, cs: &[Candle], r: &mut Report) {
	let cfgv = cfg.ser().unwrap_or(Value::Null);
	let case = |what: &str, step: usize| json!({"indicator": d.name, "config": cfgv, "what": what, "step": step});
	let (nv, ns) = cfg.size();
	r.case_named(d.name, &[11, reg::json_hash(&cfgv), reg::candles_hash(cs)]);
	if cfg.name() != d.name || cfg.const_name() != d.name {
		r.violate(&format!("C11|{}|name|config", d.name), "config.name() is not NAME", || case("name", 0));
	}
	let dy = cfg.as_dyn();
	if dy.name() != d.name || dy.size() != (nv, ns) || dy.validate() != cfg.validate() {
		r.violate(&format!("C11|{}|dyn-config|name-size-validate", d.name), "dyn config disagrees with the static one", || case("dyn config", 0));
	}
	let Ok(Ok(mut inst)) = guard(|| cfg.init(&cs[0])) else { return };
	let Ok(Ok(mut dinst)) = guard(|| dy.init(&cs[0])) else {
		r.violate(&format!("C11|{}|dyn-config|init-fails", d.name), "dyn init fails where static init succeeds", || case("dyn init", 0));
		return;
	};
	if inst.name() != d.name || dinst.name() != d.name || dinst.config().name() != d.name {
		r.violate(&format!("C11|{}|name|instance", d.name), "instance name() is not NAME", || case("name", 0));
	}
	if inst.size() != (nv, ns) || dinst.size() != (nv, ns) || dinst.config().size() != (nv, ns) {
		r.violate(&format!("C11|{}|size|instance", d.name), "instance size() differs from config size()", || case("size", 0));
	}
	if inst.cfg_ser().ok().as_ref() != Some(&cfgv) {
		r.violate(&format!("C11|{}|instance-config-differs", d.name), "instance.config() is not the configuration it was built from", || case("config()", 0));
	}
	for (i, c) in cs.iter().enumerate() {
		let res = guard(|| (inst.next(c), dinst.next(c)));
		let Ok((a, b)) = res else { return };
		r.eval(1);
		if a.values().len() != nv as usize || a.signals().len() != ns as usize || a.size() != (nv, ns) || a.values_length() != nv || a.signals_length() != ns {
			let kind = if a.values().len() != nv as usize { "values" } else { "signals" };
			r.violate(&format!("C11|{}|shape|{kind}", d.name), "result does not carry the number of values/signals announced by size()", || json!({"case": case("shape", i), "size()": [nv, ns], "values": a.values().len(), "signals": a.signals().len()}));
			return;
		}
		if res_bits(&a) != res_bits(&b) {
			r.violate(&format!("C11|{}|dyn-instance|differs", d.name), "dyn instance result differs from the static one", || case("dyn next", i));
			return;
		}
		if i % 29 == 0 {
			// accessors panic beyond the announced size, and agree inside
			for k in 0..nv as usize {
				if guard(|| a.value(k)).map(|x| x.to_bits()).ok() != Some(a.values()[k].to_bits()) {
					r.violate(&format!("C11|{}|accessor|value", d.name), "value(i) disagrees with values()[i]", || case("value(i)", i));
				}
			}
			for k in 0..ns as usize {
				if guard(|| a.signal(k)).ok().map(reg::action_code) != Some(reg::action_code(a.signals()[k])) {
					r.violate(&format!("C11|{}|accessor|signal", d.name), "signal(i) disagrees with signals()[i]", || case("signal(i)", i));
				}
			}
			if guard(|| a.value(nv as usize)).is_ok() || guard(|| a.signal(ns as usize)).is_ok() {
				r.violate(&format!("C11|{}|accessor|beyond-size", d.name), "value(i)/signal(i) beyond the announced size did not panic", || case("accessor", i));
			}
		}
	}
	r.cell(&format!("shape:{}", d.name));
}

fn ma_text(key: &str, p: u64) -> String {
	format!("{}-{p}", if key == "lin_reg" { "linreg" } else { key })
}

/// text forms and expected serialized values for a fresh value of a field
fn fresh_values(kind: &FieldKind, cur: &Value, rng: &mut Rng, n: usize) -> Vec<(String, Value)> {
	let mut out = Vec::new();
	for _ in 0..n {
		match kind {
			FieldKind::Period => {
				let p = rng.below((P::MAX as u64).saturating_add(1)).min(P::MAX as u64);
				out.push((p.to_string(), json!(p)));
			}
			FieldKind::Float => {
				let x = match rng.below(4) {
					0 => (rng.below(1000) as f64) / 1000.0,
					1 => rng.below(100) as f64,
					2 => rng.sf() * 10.0,
					_ => 0.5,
				};
				let x = gen::q(x);
				out.push((format!("{x}"), json!(x)));
			}
			FieldKind::Bool => {
				let b = rng.chance(0.5);
				out.push((b.to_string(), json!(b)));
			}
			FieldKind::Source => {
				let s = *rng.pick(&SOURCE_NAMES);
				out.push((s.to_string(), json!(s)));
			}
			FieldKind::Ma => {
				let k = *rng.pick(&MA_KEYS);
				let p = rng.below((P::MAX as u64).saturating_add(1)).min(P::MAX as u64);
				let mut m = Map::new();
				m.insert(k.to_string(), json!(p));
				out.push((ma_text(k, p), Value::Object(m)));
			}
			FieldKind::Other => {}
		}
	}
	out.retain(|(_, v)| v != cur);
	out
}

fn bad_texts(kind: &FieldKind) -> Vec<String> {
	let over = (P::MAX as u128 + 1).to_string();
	let mut v: Vec<String> = vec!["".into(), "abc".into(), " ".into(), "\0".into(), "1e".into(), "--1".into(), "１２".into()];
	match kind {
		FieldKind::Period => v.extend([" 5".to_string(), "14\n".into(), "\t3 ".into(), "-1".to_string(), over.clone(), "1.5".into(), "0x10".into(), "99999999999999999999999999".into(), "sma-3".into(), "true".into(), "close".into()]),
		FieldKind::Float => v.extend([" 0.25 ".to_string(), "0.5\n".into(), "sma-3".to_string(), "true".into(), "close".into(), "1,5".into(), "0.1.2".into()]),
		FieldKind::Bool => v.extend([" true".to_string(), "false ".into(), "1".to_string(), "yes".into(), "TRUE".into(), "0".into()]),
		FieldKind::Source => v.extend(["1".to_string(), "clos".into(), "sma-3".into(), "hl3".into()]),
		FieldKind::Ma => v.extend([" sma-5".to_string(), "ema-7 ".into(), "sma".to_string(), "sma-x".into(), "sma-".into(), "-3".into(), "3".into(), format!("sma-{over}"), "SMA-3".into(), "lin_reg-3".into(), "kama-3".into(), "close".into()]),
		FieldKind::Other => {}
	}
	v
}

fn setters(d: &reg::IDesc, ctx: &Ctx, r: &mut Report) {
	let base = (d.default)();
	let Ok(Value::Object(obj)) = base.ser() else { return };
	let mut rng = Rng::new(ctx.seed ^ crate::rng::hash_str(d.name));
	let per_field = ctx.pick(300, 2000);
	for (name, cur) in obj.iter() {
		let kind = field_kind(cur);
		if kind == FieldKind::Other {
			r.note(&format!("{}: field {name} has an unrecognised serialized kind and is not exercised through set()", d.name));
			continue;
		}
		for (text, want) in fresh_values(&kind, cur, &mut rng, per_field) {
			r.eval(1);
			r.case_named(d.name, &[111, crate::rng::hash_str(name), crate::rng::hash_str(&text)]);
			let mut c = base.bclone();
			let res = guard(|| c.set(name, text.clone()));
			let case = || json!({"indicator": d.name, "field": name, "text": text, "expected_value": want});
			match res {
				Err(p) => r.violate(&format!("C11|{}|set|{name}|panic:{}", d.name, p.class()), &p.msg, case),
				Ok(Err(_)) => r.violate(&format!("C11|{}|set|{name}|rejects-valid-text", d.name), "set(name, text) returned an error for a public parameter and a parsable value", case),
				Ok(Ok(())) => {
					let Ok(Value::Object(after)) = c.ser() else { continue };
					let mut expect = obj.clone();
					expect.insert(name.clone(), want.clone());
					if after != expect {
						let changed: Vec<&String> = after.iter().filter(|(k, v)| obj.get(*k) != Some(*v)).map(|(k, _)| k).collect();
						let kind = if after.get(name) != Some(&want) { "wrong-value-or-field" } else { "other-field-changed" };
						r.violate(&format!("C11|{}|set|{name}|{kind}", d.name), "set(name, text) did not change exactly the named parameter to the parsed value", || json!({"case": case(), "changed_fields": changed, "after": after}));
					}
				}
			}
			// through the dyn interface: same outcome (Ok/Err), same validity, same shape, same init outcome as the static call;
			// every fifth case continues with a second set on the same pair of configurations (an invalid intermediate state
			// must not make the two interfaces diverge)
			{
				let mut dc = base.as_dyn();
				let mut c2 = base.bclone();
				let mut steps: Vec<(String, String)> = vec![(name.clone(), text.clone())];
				if rng.chance(0.2) {
					let names: Vec<&String> = obj.keys().collect();
					let n2 = (*rng.pick(&names)).clone();
					let k2 = field_kind(&obj[&n2]);
					if let Some((t2, _)) = fresh_values(&k2, &obj[&n2], &mut rng, 1).into_iter().next() {
						steps.push((n2, t2));
					}
				}
				for (si, (n, t)) in steps.iter().enumerate() {
					let rd = guard(|| dc.set(n, t.clone()).is_ok());
					let rs = guard(|| c2.set(n, t.clone()).is_ok());
					let agree = match (&rd, &rs) {
						(Ok(a), Ok(b)) => a == b && dc.validate() == c2.validate() && dc.size() == c2.size() && dc.name() == c2.name(),
						(Err(_), Err(_)) => true,
						_ => false,
					};
					let init_agree = agree && {
						let c0 = &gen::candles(0, 7, 2, 2)[0];
						let a = guard(|| dc.init(c0).is_ok());
						let b = guard(|| c2.init(c0).is_ok());
						let init_same = match (a, b) {
							(Ok(x), Ok(y)) => x == y,
							(Err(_), Err(_)) => true, // both panic: C10's matter
							_ => false,
						};
						// batch evaluation through the two interfaces: same outcome and the same number of results, on an
						// empty input as well (where the static `over` answers Ok(empty) whatever the configuration is)
						let few = gen::candles(0, 7, 3, 2);
						let over_same = [Vec::new(), few].iter().all(|cs| {
							let a = guard(|| dc.over(cs).map(|v| v.len()).ok());
							let b = guard(|| c2.over(cs).map(|v| v.len()).ok());
							match (a, b) {
								(Ok(x), Ok(y)) => x == y,
								(Err(_), Err(_)) => true,
								_ => false,
							}
						});
						init_same && over_same
					};
					if !agree || !init_agree {
						r.violate(&format!("C11|{}|dyn-config|set-differs", d.name), "set through IndicatorConfigDyn behaves differently from the static set (outcome, validity, shape or init)", || json!({"case": case(), "steps": steps, "failing_step": si, "dyn_ok": rd.as_ref().ok(), "static_ok": rs.as_ref().ok()}));
						break;
					}
				}
				r.cell("set:dyn-agrees-with-static");
			}
		}
		r.cell(&format!("set:{}:{name}", d.name));
		// unparsable text: Err and unchanged
		for text in bad_texts(&kind) {
			r.eval(1);
			let mut c = base.bclone();
			let res = guard(|| c.set(name, text.clone()));
			let case = || json!({"indicator": d.name, "field": name, "text": text});
			// the dyn twin must answer like the static call on unparsable text as well
			{
				let mut dc = base.as_dyn();
				let rd = guard(|| dc.set(name, text.clone()).is_ok());
				let same = match (&rd, &res) {
					(Ok(a), Ok(b)) => *a == b.is_ok() && dc.validate() == c.validate(),
					(Err(_), Err(_)) => true,
					_ => false,
				};
				if !same {
					r.violate(&format!("C11|{}|dyn-config|set-differs", d.name), "set through IndicatorConfigDyn behaves differently from the static set (outcome, validity, shape or init)", || json!({"case": case(), "dyn_ok": rd.as_ref().ok(), "static_ok": res.as_ref().ok().map(|x| x.is_ok())}));
				}
			}
			match res {
				Err(p) => r.violate(&format!("C11|{}|set|{name}|panic:{}", d.name, p.class()), &p.msg, case),
				Ok(Ok(())) => r.violate(&format!("C11|{}|set|{name}|accepts-unparsable-text", d.name), "set(name, text) accepted text that does not parse as the parameter's type", || json!({"case": case(), "after": c.ser().ok()})),
				Ok(Err(_)) => {
					if c.ser().ok() != Some(Value::Object(obj.clone())) {
						r.violate(&format!("C11|{}|set|{name}|error-but-config-changed", d.name), "set returned an error but changed the configuration", case);
					}
				}
			}
		}
	}
	// unknown names
	let mut names: Vec<String> = vec!["".into(), " ".into(), "Period".into(), "PERIOD".into(), "period ".into(), " period".into(), "cfg".into(), "name".into(), "\0".into(), "période".into()];
	for other in reg::indicators() {
		if let Ok(Value::Object(o)) = (other.default)().ser() {
			names.extend(o.keys().cloned());
		}
	}
	for _ in 0..ctx.pick(30, 600) {
		let len = 1 + rng.below(10) as usize;
		names.push((0..len).map(|_| *rng.pick(&['p', 'e', 'r', 'i', 'o', 'd', '1', '2', '_', 'm', 'a', 's', 'z', 'n'])).collect());
	}
	names.sort();
	names.dedup();
	for n in names {
		if obj.contains_key(&n) {
			continue;
		}
		for text in ["3", "0.5", "sma-3", "close", "true"] {
			r.eval(1);
			let mut c = base.bclone();
			match guard(|| c.set(&n, text.to_string())) {
				Err(p) => r.violate(&format!("C11|{}|set|unknown-name|panic:{}", d.name, p.class()), &p.msg, || json!({"indicator": d.name, "name": n})),
				Ok(Ok(())) => r.violate(&format!("C11|{}|set|unknown-name|accepted", d.name), "set() with an unknown parameter name returned Ok", || json!({"indicator": d.name, "name": n, "text": text, "after": c.ser().ok()})),
				Ok(Err(_)) => {
					if c.ser().ok() != Some(Value::Object(obj.clone())) {
						r.violate(&format!("C11|{}|set|unknown-name|config-changed", d.name), "set() with an unknown name changed the configuration", || json!({"indicator": d.name, "name": n}));
					}
				}
			}
		}
	}
	r.cell(&format!("set-unknown-names:{}", d.name));
}

/// defaults stated in the field docs ("Default is `14`", "Default is [`Close`]", "Default is [`EMA(9)`]")
fn documented_defaults(r: &mut Report) {
	let dir = "/repo/src/indicators";
	let Ok(rd) = std::fs::read_dir(dir) else {
		r.note("documented defaults: /repo/src/indicators not readable, skipped");
		return;
	};
	let inds = reg::indicators();
	for e in rd.flatten() {
		let Ok(txt) = std::fs::read_to_string(e.path()) else { continue };
		let Some(name) = txt.split("const NAME: &'static str = \"").nth(1).and_then(|s| s.split('"').next()) else { continue };
		let Some(d) = inds.iter().find(|d| d.name == name) else { continue };
		let Ok(Value::Object(obj)) = (d.default)().ser() else { continue };
		let mut doc = String::new();
		let mut in_struct = false;
		for line in txt.lines() {
			let t = line.trim();
			if t.starts_with("pub struct ") {
				in_struct = true;
				doc.clear();
				continue;
			}
			if !in_struct {
				continue;
			}
			if t == "}" {
				break;
			}
			if let Some(d) = t.strip_prefix("///") {
				doc.push_str(d);
				doc.push(' ');
				continue;
			}
			if let Some(rest) = t.strip_prefix("pub ") {
				let field = rest.split(':').next().unwrap_or("").trim().to_string();
				if let (Some(pos), Some(cur)) = (doc.find("Default is "), obj.get(&field)) {
					let tail = &doc[pos + "Default is ".len()..];
					let tok: String = tail.trim_start_matches(['[', '`']).chars().take_while(|c| *c != '`' && *c != ' ' && *c != ']').collect();
					let tok = tok.trim_end_matches('.').to_string();
					r.eval(1);
					let ok = match field_kind(cur) {
						FieldKind::Period | FieldKind::Float => tok.parse::<f64>().ok().map(|x| Some(x) == cur.as_f64()),
						FieldKind::Bool => tok.parse::<bool>().ok().map(|b| Some(b) == cur.as_bool()),
						FieldKind::Source => Some(cur.as_str().map(|s| s.replace('_', "")) == Some(tok.to_lowercase())),
						FieldKind::Ma => {
							let kind = tok.split('(').next().unwrap_or("").to_lowercase();
							let p = tok.split('(').nth(1).and_then(|s| s.trim_end_matches(')').parse::<u64>().ok());
							let key = if kind == "linreg" { "lin_reg".to_string() } else { kind };
							p.map(|p| cur.get(&key).and_then(Value::as_u64) == Some(p))
						}
						FieldKind::Other => None,
					};
					match ok {
						Some(true) => r.cell(&format!("documented-default:{name}:{field}")),
						Some(false) => r.violate(&format!("C11|{name}|default|{field}|differs-from-doc"), "the default value differs from the one stated in the field's documentation", || json!({"indicator": name, "field": field, "documented": tok, "actual": cur})),
						None => r.note(&format!("documented default of {name}.{field} not understood: {tok}")),
					}
				}
				doc.clear();
			} else if !t.starts_with("#[") {
				doc.clear();
			}
		}
	}
}

fn example_indicator(r: &mut Report) {
	use yata::indicators::example::Example;
	let cfg = Example::default();
	let cs = gen::candles(0, 5, 120, 5);
	r.eval(1);
	if !cfg.validate() {
		r.violate("C11|Example|default-invalid", "default configuration does not validate", || json!({}));
		return;
	}
	let (nv, ns) = cfg.size();
	match guard(|| cfg.init(&cs[0])) {
		Ok(Ok(mut i)) => {
			if IndicatorConfig::name(&cfg) != "Example" || IndicatorInstance::name(&i) != "Example" || IndicatorInstance::size(&i) != (nv, ns) {
				r.violate("C11|Example|name-or-size", "name()/size() wrong", || json!({}));
			}
			for c in &cs {
				let res: IndicatorResult = IndicatorInstance::next(&mut i, c);
				r.eval(1);
				if res.values().len() != nv as usize || res.signals().len() != ns as usize {
					r.violate("C11|Example|shape", "result shape differs from size()", || json!({}));
					break;
				}
			}
			r.cell("shape:Example");
		}
		_ => r.violate("C11|Example|default-does-not-init", "default configuration does not initialise", || json!({})),
	}
}

pub fn run(ctx: &Ctx, r: &mut Report) {
	let inds = reg::indicators();
	// names pairwise distinct (36 + Example)
	if ctx.mine(0) {
		let mut names: Vec<&str> = inds.iter().map(|d| d.name).collect();
		names.push("Example");
		let n = names.len();
		names.sort_unstable();
		names.dedup();
		r.eval(n as u64);
		if names.len() != n {
			r.violate("C11|names|not-distinct", "two indicators share a NAME", || json!({}));
		}
		r.cell("names-distinct:37");
		documented_defaults(r);
		example_indicator(r);
	}
	let mut k = 0u64;
	for d in &inds {
		k += 1;
		if ctx.mine(k) {
			// default configuration is valid and initialises
			let base = (d.default)();
			r.eval(1);
			let cs = gen::candles(0, ctx.seed, 4, 5);
			match guard(|| (base.validate(), base.init(&cs[0]).is_ok())) {
				Ok((true, true)) => r.cell(&format!("default-valid:{}", d.name)),
				Ok((v, i)) => r.violate(&format!("C11|{}|default|{}", d.name, if !v { "does-not-validate" } else { "does-not-init" }), "the default configuration is not valid / does not initialise", || json!({"indicator": d.name, "validate": v, "init_ok": i})),
				Err(p) => r.violate(&format!("C11|{}|default|panic:{}", d.name, p.class()), &p.msg, || json!({"indicator": d.name})),
			}
			setters(d, ctx, r);
		}
		let cfgs = icfg::configs(d, ctx.pick(40, 100), ctx.seed);
		for cfg in cfgs.iter() {
			k += 1;
			if !ctx.mine(k) {
				continue;
			}
			let cs = gen::candles(((k + ctx.seed) % 5) as usize, ctx.seed ^ k << 8, ctx.pick(300, 600), 14);
			shape_and_names(d, cfg.as_ref(), &cs, r);
		}
	}
	if ctx.mine(0) {
		r.sample(|| json!({"indicator": "MACD", "set": ["ma1", "ema-7"], "expected": "serialized config differs from the default in exactly key ma1 = {\"ema\": 7}"}));
		r.sample(|| json!({"indicator": "Aroon", "set": ["Period", "3"], "expected": "Err, configuration unchanged"}));
	}
}
