//! C01 — Window is a faithful fixed-capacity FIFO.
//! Events: every Window API call, with unique labels as elements. Oracle: VecDeque of the last N labels.
use crate::rep::{guard, Report};
use crate::rng::Rng;
use crate::{Ctx, P};
use serde_json::{json, Value};
use std::collections::VecDeque;
use yata::core::Window;

type L = u64;
const UNSAFE: bool = cfg!(feature = "unsafe_performance");

struct Case {
	n: usize,
	pushes: usize,
	elem: &'static str,
}

fn sig(obs: &str, kind: &str) -> String {
	format!("C01|Window|{obs}|{kind}")
}

fn reg_words(m: &VecDeque<L>) -> u64 {
	crate::reg::words_hash(m.iter().cloned())
}

/// model: front = oldest, back = newest
fn check_state(w: &Window<L>, m: &VecDeque<L>, full: bool, rng: &mut Rng, r: &mut Report, case: &dyn Fn(&str) -> Value) {
	let n = m.len();
	r.eval(1);
	r.case(&[1, n as u64, reg_words(m)]);
	// len / is_empty
	if w.len() as usize != n {
		r.violate(&sig("len", "wrong"), "len() differs from capacity", || case("len"));
	}
	if w.is_empty() != (n == 0) {
		r.violate(&sig("is_empty", "wrong"), "is_empty() wrong", || case("is_empty"));
	}
	let newest_first: Vec<L> = m.iter().rev().copied().collect();
	let oldest_first: Vec<L> = m.iter().copied().collect();

	if n > 0 {
		match guard(|| *w.newest()) {
			Ok(x) if x == newest_first[0] => {}
			Ok(_) => r.violate(&sig("newest", "wrong-element"), "newest() is not the last pushed value", || case("newest")),
			Err(p) => r.violate(&sig("newest", &format!("panic:{}", p.class())), &p.msg, || case("newest")),
		}
		match guard(|| *w.oldest()) {
			Ok(x) if x == oldest_first[0] => {}
			Ok(_) => r.violate(&sig("oldest", "wrong-element"), "oldest() is not the value pushed N-1 steps ago", || case("oldest")),
			Err(p) => r.violate(&sig("oldest", &format!("panic:{}", p.class())), &p.msg, || case("oldest")),
		}
	} else if !UNSAFE {
		// empty window: a panic is admissible, an element is not. Not called in unsafe_performance builds:
		// the default build panics here, so C19 excludes the call and the unsafe build has UB by contract.
		let _ = guard(|| *w.newest()).map(|_| r.violate(&sig("newest", "element-from-empty"), "empty window yielded an element", || case("newest-empty")));
		let _ = guard(|| *w.oldest()).map(|_| r.violate(&sig("oldest", "element-from-empty"), "empty window yielded an element", || case("oldest-empty")));
	}

	// get(i) and w[i] for i in 0..N+2 and the type's extremes
	let mut idxs: Vec<u64> = (0..(n as u64 + 3)).collect();
	for extra in [253u64, 254, 255, P::MAX as u64 - 1, P::MAX as u64] {
		if extra <= P::MAX as u64 {
			idxs.push(extra);
		}
	}
	if !full && n > 24 {
		// sample the interior, keep both ends
		let mut s: Vec<u64> = vec![0, 1, 2, n as u64 - 2, n as u64 - 1, n as u64, n as u64 + 1, n as u64 + 2, P::MAX as u64, P::MAX as u64 - 1];
		for _ in 0..10 {
			s.push(rng.below(n as u64));
		}
		s.retain(|x| *x <= P::MAX as u64);
		idxs = s;
	}
	// indices beyond the PeriodType cannot be expressed (n + 2 = 256 for n = 254 with u8 would wrap to 0 in the cast below)
	idxs.retain(|x| *x <= P::MAX as u64);
	for &i in &idxs {
		let ip = i as P;
		let g = guard(|| w.get(ip).copied());
		match g {
			Ok(Some(x)) => {
				if (i as usize) >= n {
					r.violate(&sig("get", "element-out-of-range"), "get(i) with i >= N returned an element", || case(&format!("get({i})")));
				} else if x != newest_first[i as usize] {
					r.violate(&sig("get", "wrong-element"), "get(i) is not the i-th newest value", || case(&format!("get({i})")));
				}
			}
			Ok(None) => {
				if (i as usize) < n {
					r.violate(&sig("get", "none-in-range"), "get(i) with i < N returned None", || case(&format!("get({i})")));
				}
			}
			Err(p) => r.violate(&sig("get", &format!("panic:{}", p.class())), &p.msg, || case(&format!("get({i})"))),
		}
		if UNSAFE && n == 0 {
			continue;
		}
		let g = guard(|| w[ip]);
		match g {
			Ok(x) => {
				if (i as usize) >= n {
					r.violate(&sig("index", "element-out-of-range"), "w[i] with i >= N returned an element", || case(&format!("index({i})")));
				} else if x != newest_first[i as usize] {
					r.violate(&sig("index", "wrong-element"), "w[i] is not the i-th newest value", || case(&format!("index({i})")));
				}
			}
			Err(p) => {
				if (i as usize) < n {
					r.violate(&sig("index", &format!("panic-in-range:{}", p.class())), &p.msg, || case(&format!("index({i})")));
				}
			}
		}
	}

	// as_slice is a rotation of the model
	let sl = w.as_slice();
	if sl.len() != n {
		r.violate(&sig("as_slice", "length"), "as_slice length differs from N", || case("as_slice"));
	} else if n > 0 {
		let mut rot_ok = false;
		// rotation offset = position of the oldest element
		if let Some(pos) = sl.iter().position(|x| *x == oldest_first[0]) {
			rot_ok = (0..n).all(|k| sl[(pos + k) % n] == oldest_first[k]);
		}
		if !rot_ok {
			r.violate(&sig("as_slice", "not-a-rotation"), "as_slice is not a rotation of the last N pushes", || case("as_slice"));
		}
		let ar: &[L] = w.as_ref();
		if ar != sl {
			r.violate(&sig("as_ref", "differs"), "as_ref differs from as_slice", || case("as_ref"));
		}
	}

	// iterators: full collection
	let it: Result<Vec<L>, _> = guard(|| w.iter().copied().collect());
	match it {
		Ok(v) if v == newest_first => {}
		Ok(_) => r.violate(&sig("iter", "wrong-sequence"), "iter() does not read newest..oldest", || case("iter")),
		Err(p) => r.violate(&sig("iter", &format!("panic:{}", p.class())), &p.msg, || case("iter")),
	}
	let it: Result<Vec<L>, _> = guard(|| w.iter_rev().copied().collect());
	match it {
		Ok(v) if v == oldest_first => {}
		Ok(_) => r.violate(&sig("iter_rev", "wrong-sequence"), "iter_rev() does not read oldest..newest", || case("iter_rev")),
		Err(p) => r.violate(&sig("iter_rev", &format!("panic:{}", p.class())), &p.msg, || case("iter_rev")),
	}
	let it: Result<Vec<L>, _> = guard(|| (&*w).into_iter().copied().collect());
	match it {
		Ok(v) if v == newest_first => {}
		Ok(_) => r.violate(&sig("into_iter", "wrong-sequence"), "&Window into_iter differs", || case("into_iter")),
		Err(p) => r.violate(&sig("into_iter", &format!("panic:{}", p.class())), &p.msg, || case("into_iter")),
	}

	// partially consumed iterators
	let mut ks: Vec<usize> = if cfg!(miri) { vec![0, n / 2, n] } else if full || n <= 16 { (0..=n).collect() } else { vec![0, 1, n - 1, n] };
	if !(full || n <= 16) {
		for _ in 0..6 {
			ks.push(rng.below(n as u64 + 1) as usize);
		}
	}
	for &k in &ks {
		for dir in 0..2 {
			let (name, expect): (&str, &Vec<L>) = if dir == 0 { ("iter", &newest_first) } else { ("iter_rev", &oldest_first) };
			let rest = &expect[k..];
			macro_rules! part {
				($mk:expr) => {{
					// size_hint, len
					let res = guard(|| {
						let mut it = $mk;
						for _ in 0..k {
							it.next();
						}
						(it.size_hint(), it.len())
					});
					match res {
						Ok((sh, l)) => {
							if sh != (rest.len(), Some(rest.len())) || l != rest.len() {
								r.violate(&sig(name, "size_hint"), "size_hint/len of a partially consumed iterator wrong", || case(&format!("{name}.skip({k}).size_hint")));
							}
						}
						Err(p) => r.violate(&sig(name, &format!("panic:{}", p.class())), &p.msg, || case(&format!("{name}.skip({k}).size_hint"))),
					}
					// count
					let res = guard(|| {
						let mut it = $mk;
						for _ in 0..k {
							it.next();
						}
						it.count()
					});
					match res {
						Ok(c) if c == rest.len() => {}
						Ok(_) => r.violate(&sig(name, "count"), "count() of a partially consumed iterator wrong", || case(&format!("{name}.skip({k}).count"))),
						Err(p) => r.violate(&sig(name, &format!("panic:{}", p.class())), &p.msg, || case(&format!("{name}.skip({k}).count"))),
					}
					// last (on an empty window the default build panics: not called in unsafe builds)
					let res = if UNSAFE && n == 0 { Ok(None) } else { guard(|| {
						let mut it = $mk;
						for _ in 0..k {
							it.next();
						}
						it.last().copied()
					}) };
					match res {
						Ok(l) => {
							if l != rest.last().copied() {
								let kind = if rest.is_empty() { "last-after-exhaustion" } else { "last-wrong" };
								r.violate(&sig(name, kind), "last() of a partially consumed iterator is not the last remaining element", || case(&format!("{name}.skip({k}).last")));
							}
						}
						Err(p) => {
							// an empty window may panic, never yield
							if n > 0 {
								r.violate(&sig(name, &format!("panic:{}", p.class())), &p.msg, || case(&format!("{name}.skip({k}).last")))
							}
						}
					}
					// remaining items + fused
					let res = guard(|| {
						let mut it = $mk;
						for _ in 0..k {
							it.next();
						}
						let v: Vec<L> = it.by_ref().copied().collect();
						let after = (it.next().copied(), it.next().copied());
						(v, after)
					});
					match res {
						Ok((v, after)) => {
							if v != rest {
								r.violate(&sig(name, "remaining"), "remaining items of a partially consumed iterator wrong", || case(&format!("{name}.skip({k}).collect")));
							}
							if after != (None, None) {
								r.violate(&sig(name, "not-fused"), "iterator yields after exhaustion", || case(&format!("{name}.skip({k}).fused")));
							}
						}
						Err(p) => r.violate(&sig(name, &format!("panic:{}", p.class())), &p.msg, || case(&format!("{name}.skip({k}).collect"))),
					}
					// nth
					if !rest.is_empty() {
						let j = rng.below(rest.len() as u64 + 1) as usize;
						let res = guard(|| {
							let mut it = $mk;
							for _ in 0..k {
								it.next();
							}
							it.nth(j).copied()
						});
						match res {
							Ok(x) if x == rest.get(j).copied() => {}
							Ok(_) => r.violate(&sig(name, "nth"), "nth() wrong", || case(&format!("{name}.skip({k}).nth({j})"))),
							Err(p) => r.violate(&sig(name, &format!("panic:{}", p.class())), &p.msg, || case(&format!("{name}.skip({k}).nth"))),
						}
					}
					// consumers that std routes through `fold` / `try_fold` / `nth` on the iterator taken by value (an override of
					// one of these on the window's iterators must agree with plain next())
					let res = guard(|| {
						let adv = || {
							let mut it = $mk;
							for _ in 0..k {
								it.next();
							}
							it
						};
						let folded: Vec<L> = adv().fold(Vec::new(), |mut v, x| {
							v.push(*x);
							v
						});
						let mut each: Vec<L> = Vec::new();
						adv().for_each(|x| each.push(*x));
						let cnt = adv().count();
						let mx = adv().copied().max();
						let mn = adv().copied().min();
						let sum = adv().fold(0u64, |a, x| a.wrapping_add(*x));
						let j = if rest.is_empty() { 0 } else { rng.below(rest.len() as u64 + 2) as usize };
						let skipped: Vec<L> = adv().skip(j).copied().collect();
						let st = 1 + rng.below(4) as usize;
						let stepped: Vec<L> = adv().step_by(st).copied().collect();
						let hint = adv().size_hint();
						// distances beyond the PeriodType's range (an O(1) nth that narrows its argument wraps modulo 2^bits)
						let far: Vec<usize> = vec![255, 256, 257, 256 + rest.len() / 2, 511, 512, 65535, 65536, 65536 + 1, usize::MAX];
						let far_ok = far.iter().all(|&d| {
							let want = rest.get(d).copied();
							let mut it = adv();
							let got = it.nth(d).copied();
							let after = it.next().copied();
							got == want && after == d.checked_add(1).and_then(|e| rest.get(e).copied()) && adv().skip(d).next().copied() == want
						});
						let all_pos = adv().position(|_| false);
						let found = adv().copied().find(|x| Some(*x) == rest.last().copied());
						(folded, each, cnt, mx, mn, sum, j, skipped, st, stepped, hint, all_pos, found, far_ok)
					});
					match res {
						Ok((folded, each, cnt, mx, mn, sum, j, skipped, st, stepped, hint, all_pos, found, far_ok)) => {
							let want_sum = rest.iter().fold(0u64, |a, x| a.wrapping_add(*x));
							let bad = if folded != rest {
								Some("fold")
							} else if each != rest {
								Some("for_each")
							} else if cnt != rest.len() {
								Some("count")
							} else if mx != rest.iter().copied().max() || mn != rest.iter().copied().min() {
								Some("max/min")
							} else if sum != want_sum {
								Some("sum")
							} else if skipped != rest.iter().skip(j).copied().collect::<Vec<L>>() {
								Some("skip")
							} else if stepped != rest.iter().step_by(st).copied().collect::<Vec<L>>() {
								Some("step_by")
							} else if hint != (rest.len(), Some(rest.len())) {
								Some("size_hint")
							} else if all_pos.is_some() || found != rest.last().copied() {
								Some("position/find")
							} else if !far_ok {
								Some("nth/skip-beyond-PeriodType-range")
							} else {
								None
							};
							if let Some(what) = bad {
								r.violate(&sig(name, &format!("partially-consumed|{what}")), "a consumer of a partially consumed iterator disagrees with the remaining sequence", || case(&format!("{name} after {k} next(): {what}")));
							}
						}
						Err(p) => {
							if n > 0 {
								r.violate(&sig(name, &format!("panic:{}", p.class())), &p.msg, || case(&format!("{name}.skip({k}) consumers")))
							}
						}
					}
				}};
			}
			if dir == 0 {
				part!(w.iter());
			} else {
				part!(w.iter_rev());
			}
			r.eval(1);
		}
	}
}

fn index_of(w: &Window<L>) -> Option<u64> {
	let v = serde_json::to_value(w).ok()?;
	v.get("index")?.as_u64()
}

/// rebuilt windows must equal the model and stay equal for further pushes
fn check_rebuilds(w: &Window<L>, m: &VecDeque<L>, next_label: L, rng: &mut Rng, r: &mut Report, case: &dyn Fn(&str) -> Value) {
	let n = m.len();
	let mut rebuilt: Vec<(&str, Window<L>)> = Vec::new();
	let idx = index_of(w);
	if n > 0 {
		match idx {
			Some(i) => {
				let sl: Box<[L]> = w.as_slice().into();
				match guard(|| Window::from_parts(sl, i as P)) {
					Ok(x) => rebuilt.push(("from_parts", x)),
					Err(p) => r.violate(&sig("from_parts", &format!("panic:{}", p.class())), &p.msg, || case("from_parts")),
				}
			}
			None => r.violate(&sig("serialize", "no-index"), "serialized window has no integer `index`", || case("serialize")),
		}
	}
	// serde through a positional format (structs as sequences of field values, read back in declaration order) and through
	// the bit-exact name-based tree
	for (route, positional) in [("serde-positional", true), ("serde-bit-exact", false)] {
		let sv = if positional { crate::sv::to_sv_positional(w) } else { crate::sv::to_sv(w) };
		match sv {
			Ok(v) => match guard(|| crate::sv::from_sv::<Window<L>>(&v)) {
				Ok(Ok(x)) => rebuilt.push((route, x)),
				Ok(Err(e)) => r.violate(&format!("C01|Window|deserialize|{route}|rejects-own-form"), &format!("Deserialize rejects what Serialize produced: {e}"), || case(route)),
				Err(p) => r.violate(&sig("deserialize", &format!("panic:{}", p.class())), &p.msg, || case(route)),
			},
			Err(e) => r.violate(&format!("C01|Window|serialize|{route}|error"), &e, || case(route)),
		}
	}
	// serde through Value and through text
	match serde_json::to_value(w) {
		Ok(v) => {
			match guard(|| serde_json::from_value::<Window<L>>(v.clone())) {
				Ok(Ok(x)) => rebuilt.push(("serde-value", x)),
				Ok(Err(e)) => {
					let kind = if n == 0 { "rejects-own-empty-form" } else { "rejects-own-form" };
					r.violate(&format!("C01|Window|deserialize|{kind}"), &format!("Deserialize rejects what Serialize produced: {e}"), || case("serde-value"))
				}
				Err(p) => r.violate(&sig("deserialize", &format!("panic:{}", p.class())), &p.msg, || case("serde-value")),
			}
			let txt = v.to_string();
			match guard(|| serde_json::from_str::<Window<L>>(&txt)) {
				Ok(Ok(x)) => rebuilt.push(("serde-text", x)),
				Ok(Err(_)) => {} // already reported above
				Err(p) => r.violate(&sig("deserialize", &format!("panic:{}", p.class())), &p.msg, || case("serde-text")),
			}
		}
		Err(e) => r.violate(&sig("serialize", "error"), &e.to_string(), || case("serialize")),
	}
	// From<Vec> / From<Box<[T]>>: index 0, buffer = oldest..newest
	if n > 0 {
		let v: Vec<L> = m.iter().copied().collect();
		match guard(|| Window::from(v.clone())) {
			Ok(x) => rebuilt.push(("from-vec", x)),
			Err(p) => r.violate(&sig("from-vec", &format!("panic:{}", p.class())), &p.msg, || case("from-vec")),
		}
		let b: Box<[L]> = v.into_boxed_slice();
		match guard(|| Window::from(b)) {
			Ok(x) => rebuilt.push(("from-box", x)),
			Err(p) => r.violate(&sig("from-box", &format!("panic:{}", p.class())), &p.msg, || case("from-box")),
		}
	}
	// clone
	rebuilt.push(("clone", w.clone()));
	for (how, mut x) in rebuilt {
		let mut mm = m.clone();
		let sub = |s: &str| case(&format!("{how}:{s}"));
		check_state(&x, &mm, false, rng, r, &sub);
		if n == 0 {
			continue;
		}
		let mut lab = next_label + 1_000_000;
		for _ in 0..(2 * n + 3) {
			lab += 1;
			let exp = mm.pop_front().unwrap();
			mm.push_back(lab);
			match guard(|| x.push(lab)) {
				Ok(old) => {
					if old != exp {
						r.violate(&format!("C01|Window|{how}|push-after-rebuild"), "a rebuilt window does not continue like the original", || sub("push"));
						break;
					}
				}
				Err(p) => {
					r.violate(&format!("C01|Window|{how}|panic:{}", p.class()), &p.msg, || sub("push"));
					break;
				}
			}
		}
		check_state(&x, &mm, false, rng, r, &sub);
		r.cell(&format!("rebuild:{how}"));
	}
}

fn run_case(c: &Case, full: bool, seed: u64, r: &mut Report) {
	let miri = c.elem == "miri";
	let n = c.n;
	let mut rng = Rng::new(seed ^ (n as u64) << 20);
	let init: L = 7;
	let mut w = match guard(|| Window::new(n as P, init)) {
		Ok(w) => w,
		Err(p) => {
			r.violate(&sig("new", &format!("panic:{}", p.class())), &p.msg, || json!({"n": n}));
			return;
		}
	};
	let mut m: VecDeque<L> = std::iter::repeat(init).take(n).collect();
	// give construction values distinct identities where possible is impossible (they are one value);
	// labels start at 1000 so that they are distinguishable from the construction value
	let mut lab: L = 1000;
	let mk_case = |step: usize, what: &str| json!({"n": n, "pushes_done": step, "observer": what, "elem": c.elem});
	{
		let cs = |s: &str| mk_case(0, s);
		check_state(&w, &m, full, &mut rng, r, &cs);
		check_rebuilds(&w, &m, lab, &mut rng, r, &cs);
	}
	if n == 0 {
		r.cell("capacity:0");
		// other ways to obtain an empty window
		for (how, e) in [("empty", Window::<L>::empty()), ("default", Window::<L>::default())] {
			let cs = |s: &str| json!({"n": 0, "how": how, "observer": s});
			check_state(&e, &m, full, &mut rng, r, &cs);
			check_rebuilds(&e, &m, lab, &mut rng, r, &cs);
		}
		return;
	}
	let mut wraps = 0u64;
	for step in 1..=c.pushes {
		lab += 1;
		let exp = m.pop_front().unwrap();
		m.push_back(lab);
		match guard(|| w.push(lab)) {
			Ok(old) => {
				if old != exp {
					r.violate(&sig("push", "wrong-return"), "push did not return the value pushed N steps before", || mk_case(step, "push"));
				}
			}
			Err(p) => {
				r.violate(&sig("push", &format!("panic:{}", p.class())), &p.msg, || mk_case(step, "push"));
				return;
			}
		}
		if step % n == 0 {
			wraps += 1;
		}
		let cs = |s: &str| mk_case(step, s);
		// very large capacities (wide PeriodType builds): the O(N) observers are sampled over the ring phases,
		// the O(1) push oracle above runs on every push
		let sampled = n <= 5000 || step <= 3 || step + 3 >= c.pushes || step % (n / 8) <= 1 || (step + 1) % n <= 1;
		if !sampled {
			continue;
		}
		check_state(&w, &m, full, &mut rng, r, &cs);
		// rebuilds at every phase for small n / thorough, sampled otherwise
		if (miri && (step == n + 1 || step == c.pushes)) || (!miri && (full || n <= 12 || rng.chance(8.0 / n as f64))) {
			check_rebuilds(&w, &m, lab, &mut rng, r, &cs);
		}
		r.cell(&format!("phase:{}", if n <= 8 { format!("n{n}:{}", step % n) } else { format!("bucket{}", (step % n) * 8 / n) }));
	}
	r.cell(&format!("capacity:{n}"));
	r.count("ring_wraps", wraps);
	if wraps >= 2 {
		r.count("capacities_with_2_wraps", 1);
	}
}

/// from_parts at every index, and documented panics (slice too long, index out of range)
fn from_parts_all(n: usize, r: &mut Report) {
	for i in 0..n {
		let buf: Vec<L> = (0..n as u64).collect();
		// with index i, buf[i] is the oldest; order oldest..newest = buf[i..], buf[..i]
		let mut m: VecDeque<L> = buf[i..].iter().chain(buf[..i].iter()).copied().collect();
		match guard(|| Window::from_parts(buf.clone().into_boxed_slice(), i as P)) {
			Ok(mut w) => {
				let mut rng = Rng::new(i as u64);
				let cs = |s: &str| json!({"n": n, "from_parts_index": i, "observer": s});
				check_state(&w, &m, false, &mut rng, r, &cs);
				for k in 0..(n + 2) {
					let lab = 5000 + k as u64;
					let exp = m.pop_front().unwrap();
					m.push_back(lab);
					if w.push(lab) != exp {
						r.violate("C01|Window|from_parts|push-after-rebuild", "window built by from_parts(index) does not behave like the sequence it represents", || cs("push"));
						break;
					}
				}
				check_state(&w, &m, false, &mut rng, r, &cs);
				r.cell("from_parts:any-index");
			}
			Err(p) => r.violate(&sig("from_parts", &format!("panic:{}", p.class())), &p.msg, || json!({"n": n, "index": i})),
		}
	}
}

/// adversarial serialized forms must be rejected with Err, never panic, never an inconsistent window
fn adversarial(r: &mut Report) {
	let max = P::MAX as u64;
	let mut forms: Vec<(String, Value, bool)> = Vec::new(); // (name, value, must_be_err)
	let lens: &[usize] = if cfg!(miri) { &[0, 1, 2, 3] } else { &[0, 1, 2, 3, 7, 254, 255, 256, 1000] };
	for &len in lens {
		if len as u64 > 70000 {
			continue;
		}
		let buf: Vec<u64> = (0..len as u64).collect();
		for idx in [0u64, 1, len as u64 / 2, (len as u64).saturating_sub(1), len as u64, len as u64 + 1, max, max.saturating_add(1), u64::MAX] {
			let must_err = len as u64 > max - 1 || idx >= len as u64 && !(len == 0 && idx == 0) || idx > max;
			forms.push((format!("len={len},index={idx}"), json!({"buf": buf, "index": idx}), must_err));
		}
	}
	forms.push(("missing-index".into(), json!({"buf": [1, 2, 3]}), true));
	forms.push(("missing-buf".into(), json!({"index": 0}), true));
	forms.push(("wrong-type-index".into(), json!({"buf": [1, 2, 3], "index": "0"}), true));
	forms.push(("negative-index".into(), json!({"buf": [1, 2, 3], "index": -1}), true));
	forms.push(("float-index".into(), json!({"buf": [1, 2, 3], "index": 1.5}), true));
	forms.push(("wrong-type-buf".into(), json!({"buf": "abc", "index": 0}), true));
	forms.push(("null".into(), Value::Null, true));
	for (name, v, must_err) in forms {
		r.eval(1);
		let res = guard(|| serde_json::from_value::<Window<L>>(v.clone()));
		match res {
			Err(p) => r.violate(&format!("C01|Window|deserialize|panic:{}", p.class()), &format!("deserializing {name} panicked: {}", p.msg), || json!({"form": name, "value": v})),
			Ok(Err(_)) => {
				r.cell("adversarial:rejected");
			}
			Ok(Ok(w)) => {
				if must_err {
					r.violate("C01|Window|deserialize|accepted-malformed", &format!("malformed window accepted: {name}"), || json!({"form": name}));
				} else {
					// accepted: must be consistent with the sequence buf[index..] ++ buf[..index]
					let buf: Vec<u64> = v["buf"].as_array().unwrap().iter().map(|x| x.as_u64().unwrap()).collect();
					let i = v["index"].as_u64().unwrap() as usize;
					let m: VecDeque<L> = if buf.is_empty() { VecDeque::new() } else { buf[i..].iter().chain(buf[..i].iter()).copied().collect() };
					let mut rng = Rng::new(1);
					let cs = |s: &str| json!({"form": name, "observer": s});
					check_state(&w, &m, false, &mut rng, r, &cs);
					r.cell("adversarial:accepted-valid");
				}
			}
		}
	}
}

/// element types with drop glue and zero size (run mainly for Miri; cheap natively)
fn other_elem_types(r: &mut Report) {
	for n in [1usize, 2, 3, 5] {
		let res = guard(|| {
			let mut w: Window<Box<u32>> = Window::new(n as P, Box::new(0));
			let mut m: VecDeque<u32> = std::iter::repeat(0).take(n).collect();
			for i in 1..(3 * n as u32 + 2) {
				let old = w.push(Box::new(i));
				let e = m.pop_front().unwrap();
				m.push_back(i);
				if *old != e {
					return Err("push");
				}
				let v: Vec<u32> = w.iter().map(|b| **b).collect();
				if v != m.iter().rev().copied().collect::<Vec<_>>() {
					return Err("iter");
				}
				if **w.newest() != i {
					return Err("newest");
				}
			}
			let c = w.clone();
			drop(w);
			if c.iter_rev().map(|b| **b).collect::<Vec<_>>() != m.iter().copied().collect::<Vec<_>>() {
				return Err("clone");
			}
			let mut s: Window<String> = Window::new(n as P, String::from("init"));
			for i in 0..(2 * n + 1) {
				s.push(format!("s{i}"));
			}
			if s.newest() != &format!("s{}", 2 * n) {
				return Err("string-newest");
			}
			let mut z: Window<()> = Window::new(n as P, ());
			z.push(());
			if z.iter().count() != n || z.get(n as P).is_some() {
				return Err("zst");
			}
			Ok(())
		});
		r.eval(1);
		match res {
			Ok(Ok(())) => r.cell("elem-types:box,string,zst"),
			Ok(Err(what)) => r.violate(&format!("C01|Window|elem-types|{what}"), "Box/String/ZST window disagrees with the model", || json!({"n": n})),
			Err(p) => r.violate(&format!("C01|Window|elem-types|panic:{}", p.class()), &p.msg, || json!({"n": n})),
		}
	}
}

/// every element handed to a window is dropped exactly once (evicted elements are returned to the caller, the rest dies
/// with the window): a counting element type without heap memory, so that a double drop is a count, not a crash
fn drop_accounting(r: &mut Report) {
	use std::cell::Cell;
	struct Probe<'a> {
		made: &'a Cell<i64>,
		dropped: &'a Cell<i64>,
	}
	impl<'a> Clone for Probe<'a> {
		fn clone(&self) -> Self {
			self.made.set(self.made.get() + 1);
			Probe { made: self.made, dropped: self.dropped }
		}
	}
	impl<'a> Drop for Probe<'a> {
		fn drop(&mut self) {
			self.dropped.set(self.dropped.get() + 1);
		}
	}
	for n in [1usize, 2, 3, 7, 50] {
		let made = Cell::new(0i64);
		let dropped = Cell::new(0i64);
		let res = guard(|| {
			let mk = || {
				made.set(made.get() + 1);
				Probe { made: &made, dropped: &dropped }
			};
			let mut bad: Option<&'static str> = None;
			{
				let mut w: Window<Probe> = Window::new(n as P, mk());
				for i in 0..(3 * n + 2) {
					let old = w.push(mk());
					// alive now: the n elements in the window + `old`
					if made.get() - dropped.get() != n as i64 + 1 {
						bad = Some("live-count-after-push");
					}
					if i % 2 == 0 {
						drop(old);
					} else {
						let _moved = old;
					}
					if made.get() - dropped.get() != n as i64 {
						bad = Some("live-count-after-dropping-the-evicted-element");
					}
				}
				let c = w.clone();
				if made.get() - dropped.get() != 2 * n as i64 {
					bad = Some("live-count-after-clone");
				}
				drop(c);
			}
			if made.get() != dropped.get() {
				bad = Some("not-every-element-dropped-exactly-once");
			}
			bad
		});
		r.eval(1);
		match res {
			Ok(None) => r.cell("elem-types:drop-accounting"),
			Ok(Some(what)) => r.violate(&format!("C01|Window|drop-accounting|{what}"), "elements of a window are not dropped exactly once", || json!({"n": n, "made": made.get(), "dropped": dropped.get()})),
			Err(p) => r.violate(&format!("C01|Window|drop-accounting|panic:{}", p.class()), &p.msg, || json!({"n": n})),
		}
	}
}

pub fn run(ctx: &Ctx, r: &mut Report) {
	let max_n: usize = if P::MAX as u64 > 255 { 300 } else { P::MAX as usize - 1 };
	if let Some(rp) = &ctx.replay {
		let n = rp["case"]["n"].as_u64().unwrap_or(0) as usize;
		run_case(&Case { n, pushes: 3 * n + 7, elem: "u64" }, true, ctx.seed, r);
		from_parts_all(n.min(40), r);
		adversarial(r);
		return;
	}
	let arg_small = ctx.arg.as_deref() == Some("miri");
	let lim = if arg_small { if ctx.thorough { 8 } else { 4 } } else { max_n };
	for n in 0..=lim {
		if !ctx.mine(n as u64) {
			continue;
		}
		let full = ctx.thorough || n <= 16;
		if arg_small {
			run_case(&Case { n, pushes: 2 * n + 2, elem: "miri" }, false, ctx.seed, r);
			continue;
		}
		run_case(&Case { n, pushes: 3 * n + 7, elem: "u64" }, full, ctx.seed, r);
		if ctx.thorough || n <= 40 || n >= max_n - 2 {
			from_parts_all(n, r);
		}
	}
	// wide period types: capacities around and beyond 255 / 65535
	if P::MAX as u64 > 255 && !arg_small {
		let mut extra = vec![255usize, 256, 257, 1000, 4095, 4096];
		if P::MAX as u64 == 65535 {
			extra.push(65534);
		} else {
			extra.push(65535);
			extra.push(65536);
			extra.push(70000);
		}
		for (k, n) in extra.into_iter().enumerate() {
			if ctx.mine(k as u64 + 1000) {
				run_case(&Case { n, pushes: 2 * n + 7, elem: "u64" }, false, ctx.seed, r);
			}
		}
	}
	if ctx.mine(3) {
		adversarial(r);
	}
	if ctx.mine(5) {
		other_elem_types(r);
		drop_accounting(r);
	}
}
