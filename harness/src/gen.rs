//! Stream generators (DESIGN §3.3). All values are exactly representable in the ValueType
//! of the build (they are rounded through it), and returned as f64.
use crate::rng::Rng;
use crate::V;
use yata::core::Candle;

#[inline]
pub fn q(x: f64) -> f64 {
	(x as V) as f64
}

pub const VALUE_CLASSES: [&str; 10] = [
	"uniform-pos", "signed", "plateaus", "spikes-scale", "ramps-saw", "ties-zeros", "grid", "vol-flat-vol", "constant", "bigmean-tinyvar",
];

const F32: bool = std::mem::size_of::<V>() == 4;

fn scale_pool(r: &mut Rng) -> f64 {
	let pool: &[f64] = if F32 { &[1e-3, 1.0, 1.0, 100.0, 1e3, 1e-12, 1e9] } else { &[1e-6, 1e-3, 1.0, 1.0, 100.0, 1e3, 1e6, 1e-18, 1e-40, 1e15] };
	*r.pick(pool)
}

/// value stream of one of the ten classes; n_hint is the window length the stream is aimed at
pub fn values(class: usize, seed: u64, len: usize, n_hint: usize) -> Vec<f64> {
	let mut r = Rng::new(seed ^ 0xA5A5_0000 ^ (class as u64) << 40);
	let n = n_hint.max(1);
	let mut out = Vec::with_capacity(len);
	match class {
		0 => {
			let s = scale_pool(&mut r);
			for _ in 0..len {
				out.push(q(s * (0.5 + r.f())));
			}
		}
		1 => {
			let s = scale_pool(&mut r);
			for _ in 0..len {
				out.push(q(s * r.sf()));
			}
		}
		2 => {
			// plateaus: runs of a repeated value, run length up to 3n
			let s = scale_pool(&mut r);
			while out.len() < len {
				let v = q(s * (r.range(-6, 6) as f64) * 0.25);
				let run = 1 + r.below((3 * n) as u64 + 2) as usize;
				for _ in 0..run {
					if out.len() < len {
						out.push(v);
					}
				}
			}
		}
		3 => {
			// spikes and abrupt changes of scale
			let (lo, hi) = if F32 { (1e-3, 1e3) } else { (1e-6, 1e6) };
			let mut s = 1.0;
			let mut left = 0usize;
			for _ in 0..len {
				if left == 0 {
					s = *r.pick(&[lo, 1.0, hi, 1.0, lo * 1e2, hi * 1e-2]);
					left = 1 + r.below((2 * n) as u64 + 5) as usize;
				}
				left -= 1;
				let mut v = s * (1.0 + 0.3 * r.sf());
				if r.chance(0.02) {
					v *= if r.chance(0.5) { 1e3 } else { -1e3 };
				}
				out.push(q(v));
			}
		}
		4 => {
			// monotone ramps and saw-tooth
			let s = scale_pool(&mut r);
			let mut v = 0.0;
			let mut step = s * 0.01;
			let mut left = 0usize;
			for _ in 0..len {
				if left == 0 {
					left = 1 + r.below((3 * n) as u64 + 3) as usize;
					step = s * 0.01 * (r.range(-3, 3) as f64);
					if r.chance(0.2) {
						v = 0.0;
					}
				}
				left -= 1;
				v += step;
				out.push(q(v));
			}
		}
		5 => {
			// tie-heavy small alphabet incl. both zeros
			let alpha: [f64; 7] = [-0.0, 0.0, 1.0, -1.0, 2.0, 0.5, -0.0];
			let k = 2 + r.below(6) as usize;
			for _ in 0..len {
				out.push(alpha[r.below(k as u64) as usize]);
			}
		}
		6 => {
			// exact grid: k * 2^-8, |k| <= 2^20  (f32: k * 2^-2, |k| <= 2^9)
			let (den, kmax) = if F32 { (4.0, 512i64) } else { (256.0, 1 << 20) };
			let walk = r.chance(0.5);
			let mut k = r.range(-kmax, kmax);
			let mut hold = 0usize;
			for _ in 0..len {
				if hold > 0 {
					hold -= 1;
				} else if r.chance(0.04) {
					hold = 1 + r.below(2 * n as u64 + 2) as usize;
				} else if walk {
					k = (k + r.range(-kmax / 64, kmax / 64)).clamp(-kmax, kmax);
				} else {
					k = r.range(-kmax, kmax);
				}
				out.push(k as f64 / den);
			}
		}
		7 => {
			// volatile -> exactly flat (> n steps) -> volatile ...
			let s = scale_pool(&mut r);
			let base = s * (1.0 + r.f());
			let mut flat = false;
			let mut left = 0usize;
			let mut level = q(base);
			for _ in 0..len {
				if left == 0 {
					flat = !flat && r.chance(0.7);
					// flat stretches outlast the window; one in six is long whatever the window is (recursive kinds need ~40-100
					// unchanged inputs before their decaying state reaches the rounding level of the price)
					left = if flat { if r.chance(0.17) { 40 + r.below(150) as usize } else { n + 1 + r.below((2 * n) as u64 + 3) as usize } } else { 3 + r.below((2 * n) as u64 + 10) as usize };
				}
				left -= 1;
				if !flat {
					level = q(base * (1.0 + 0.5 * r.sf()));
				}
				out.push(level);
			}
		}
		8 => {
			let pool: [f64; 8] = [0.0, -0.0, 1.0, 0.1, -3.7, 1e-3, 1e3, 1.0 / 3.0];
			let v = q(*r.pick(&pool) * if r.chance(0.3) { scale_pool(&mut r) } else { 1.0 });
			out.resize(len, v);
		}
		_ => {
			// large mean, tiny variance
			let m = if F32 { 1e4 } else { 1e8 };
			for _ in 0..len {
				out.push(q(m + r.range(-1, 1) as f64));
			}
		}
	}
	out
}

/// exact-grid volumes: non-negative integers / 4
pub fn grid_volume(r: &mut Rng) -> f64 {
	(r.below(if F32 { 256 } else { 1 << 16 }) as f64) / 4.0
}

pub const CANDLE_CLASSES: [&str; 10] = ["walk", "flat-stretches", "zero-volume", "grid", "trends", "extreme", "clean-walk", "long-ramp", "trend-ripple", "single-price-bars"];

pub fn mk(o: f64, h: f64, l: f64, c: f64, v: f64) -> Candle {
	Candle { open: o as V, high: h as V, low: l as V, close: c as V, volume: v as V }
}

/// stream of *valid* candles (low>0, low<=open,close<=high, finite, volume>=0)
pub fn candles(class: usize, seed: u64, len: usize, n_hint: usize) -> Vec<Candle> {
	use yata::core::OHLCV;
	let mut r = Rng::new(seed ^ 0xC0DE_0000 ^ (class as u64) << 44);
	let n = n_hint.max(2);
	let mut out: Vec<Candle> = Vec::with_capacity(len);
	let scale = match class {
		5 => *r.pick(&[1e-30, 1e30, 1e-3, 1e6]),
		3 => 1.0,
		_ => *r.pick(&[1.0, 1.0, 100.0, 1e-2, 1e4]),
	};
	let scale = if F32 && class == 5 { *r.pick(&[1e-10, 1e10]) } else { scale };
	let mut price = scale * (1.0 + r.f());
	let mut flat_left = 0usize;
	let mut zv_left = 0usize;
	let mut trend = 0.0f64;
	let mut trend_left = 0usize;
	let vol_base = *r.pick(&[1.0, 1000.0, 1e6]);
	// long monotone ramps: every candle makes a new high (or a new low), hundreds of steps without a pull-back
	if class == 7 {
		let up = r.chance(0.5);
		let step = *r.pick(&[0.001, 0.004, 0.0005]);
		let mut p = price * if up { 1.0 } else { 1000.0 };
		let switch_at = if r.chance(0.3) { len / 2 + r.below(len as u64 / 4 + 1) as usize } else { usize::MAX };
		let mut dir = if up { 1.0 } else { -1.0 };
		for i in 0..len {
			if i == switch_at {
				dir = -dir;
			}
			let o = q(p);
			p *= 1.0 + dir * step * (1.0 + 0.2 * r.f());
			let c = q(p);
			let (lo0, hi0) = (o.min(c), o.max(c));
			let h = q(hi0 * (1.0 + 0.1 * step));
			let l = q(lo0 * (1.0 - 0.1 * step));
			out.push(mk(o, h.max(hi0), l.min(lo0), c, q(vol_base * (0.5 + r.f()))));
		}
		for c in &out {
			assert!(c.validate(), "generator produced an invalid candle {c:?}");
		}
		return out;
	}
	// bars with a single trade: open = high = low = close, the price still moves from bar to bar (valid candles whose
	// range is exactly zero for whole averaging windows); a few ordinary bars in between
	if class == 9 {
		let ordinary = *r.pick(&[0.0, 0.0, 0.05, 0.2]);
		let mut p = price;
		for _ in 0..len {
			if !r.chance(0.15) {
				p = q(p * (1.0 + 0.01 * r.sf())).max(price * 1e-3);
			}
			let v = q(vol_base * (0.5 + r.f()));
			if r.chance(ordinary) {
				let c = q(p * (1.0 + 0.01 * r.sf()));
				let (lo0, hi0) = (p.min(c), p.max(c));
				out.push(mk(p, q(hi0 * 1.002).max(hi0), q(lo0 * 0.998).min(lo0), c, v));
				p = c;
			} else {
				out.push(mk(p, p, p, p, v));
			}
		}
		for c in &out {
			assert!(c.validate(), "generator produced an invalid candle {c:?}");
		}
		return out;
	}
	// steady trend with a small periodic ripple: an oscillator (fast - slow average) stays on one side of zero for the
	// whole stream while it forms a pivot every few candles (hundreds of same-side pivots without a zero crossing)
	if class == 8 {
		let up = r.chance(0.6);
		let drift = *r.pick(&[5e-4, 5e-4, 2e-4, 1e-3]) * price;
		let amp = *r.pick(&[2e-3, 2e-3, 1e-3, 4e-3]) * price;
		let per = *r.pick(&[2usize, 2, 3, 4, 6]);
		let start = if up { price } else { price + drift * (len as f64 + 10.0) + 2.0 * amp };
		let level = |i: usize| -> f64 {
			let ph = i % per;
			let rip = if per == 2 { if ph == 0 { 1.0 } else { -1.0 } } else { let t = ph as f64 / per as f64; if t < 0.5 { 4.0 * t - 1.0 } else { 3.0 - 4.0 * t } };
			start + if up { drift * i as f64 } else { -drift * i as f64 } + amp * rip
		};
		for i in 0..len {
			let o = q(if i == 0 { level(0) } else { out[i - 1].close as f64 });
			let c = q(level(i + 1));
			let (lo0, hi0) = (o.min(c), o.max(c));
			let h = q(hi0 + 0.05 * amp * r.f());
			let l = q(lo0 - 0.05 * amp * r.f());
			out.push(mk(o, h.max(hi0), l.min(lo0), c, q(vol_base * (0.5 + r.f()))));
		}
		for c in &out {
			assert!(c.validate(), "generator produced an invalid candle {c:?}");
		}
		return out;
	}
	for i in 0..len {
		// grid class: everything on k/64, volumes on k/4
		if class == 3 {
			let g = |x: f64| (x * 64.0).round().max(1.0) / 64.0;
			let prev = if i == 0 { g(50.0 + 20.0 * r.sf()) } else { out[i - 1].close as f64 };
			let o = if r.chance(0.6) { prev } else { g(prev + r.range(-64, 64) as f64 / 64.0) };
			let c = if r.chance(0.15) { o } else { g(o + r.range(-128, 128) as f64 / 64.0) };
			let hi0 = o.max(c);
			let lo0 = o.min(c);
			let h = if r.chance(0.3) { hi0 } else { g(hi0 + r.below(96) as f64 / 64.0) };
			let l = if r.chance(0.3) { lo0 } else { g((lo0 - r.below(96) as f64 / 64.0).max(1.0 / 64.0)) };
			let l = l.min(lo0);
			let v = if r.chance(0.1) { 0.0 } else { grid_volume(&mut r) };
			out.push(mk(o, h, l, c, v));
			continue;
		}
		if class == 1 || (class != 4 && class != 6 && r.chance(0.002)) {
			if flat_left == 0 && r.chance(if class == 1 { 0.04 } else { 0.5 }) {
				flat_left = n + 1 + r.below((2 * n) as u64 + 2) as usize;
			}
		}
		if class == 2 && zv_left == 0 && r.chance(0.05) {
			zv_left = 1 + r.below((2 * n) as u64 + 2) as usize;
		}
		let vol = if zv_left > 0 {
			zv_left -= 1;
			0.0
		} else if class == 2 && r.chance(0.05) {
			q(vol_base * if F32 { 1e3 } else { 1e9 } * r.f())
		} else if class != 6 && r.chance(0.03) {
			0.0
		} else {
			q(vol_base * (0.1 + r.f()))
		};
		if flat_left > 0 {
			flat_left -= 1;
			let p = if i == 0 { q(price) } else { out[i - 1].close as f64 };
			out.push(mk(p, p, p, p, vol));
			continue;
		}
		if class == 4 {
			if trend_left == 0 {
				trend = *r.pick(&[0.01, -0.01, 0.03, -0.03, 0.0, 0.002, -0.002]);
				trend_left = 5 + r.below((3 * n) as u64 + 10) as usize;
			}
			trend_left -= 1;
		}
		let prev_close = if i == 0 { price } else { out[i - 1].close as f64 };
		let o = if r.chance(0.7) { prev_close } else { prev_close * (1.0 + 0.01 * r.sf()) };
		let mut c = o * (1.0 + trend + 0.02 * r.gauss());
		if class != 6 && r.chance(0.08) {
			c = o; // doji
		}
		if c <= 0.0 {
			c = o * 0.5;
		}
		let (o, c) = (q(o), q(c));
		let hi0 = o.max(c);
		let lo0 = o.min(c);
		let pe = if class == 6 { 0.0 } else { 0.25 };
		let h = if r.chance(pe) { hi0 } else { q(hi0 * (1.0 + 0.001 + 0.01 * r.f())) };
		let l = if r.chance(pe) { lo0 } else { q(lo0 * (1.0 - 0.001 - 0.01 * r.f())) };
		let h = h.max(hi0);
		let l = l.min(lo0);
		price = c;
		out.push(mk(o, h, l, c, vol));
	}
	debug_assert!(out.iter().all(|c| c.validate()));
	for c in &out {
		assert!(c.validate(), "generator produced an invalid candle {c:?}");
	}
	out
}

/// all sequences of length `len` over an alphabet of `k` symbols, as index vectors; calls f for each
pub fn for_all_sequences(k: usize, len: usize, mut f: impl FnMut(&[usize])) {
	let mut idx = vec![0usize; len];
	loop {
		f(&idx);
		let mut p = 0;
		loop {
			if p == len {
				return;
			}
			idx[p] += 1;
			if idx[p] < k {
				break;
			}
			idx[p] = 0;
			p += 1;
		}
	}
}
