//! Workload helpers shared by the registry-based monitors: parameters and input streams per method.
use crate::gen;
use crate::reg::{In, InKind, MDesc, Par, ParKind};
use crate::rng::Rng;
use crate::{P, V};
use yata::core::Source;

/// parameter object for a method given a nominal length
pub fn params_for(m: &MDesc, len: u64, rng: &mut Rng) -> Par {
	match m.par {
		ParKind::U => Par::U,
		ParKind::L => Par::L(len as P),
		ParKind::LL => {
			if m.name == "TSI" {
				// (short, long)
				let a = 1 + rng.below(len.max(1));
				Par::LL(a as P, len.max(1) as P)
			} else {
				// (left, right) with left+right = len (>= 2)
				let l = len.max(2).min(253);
				let left = 1 + rng.below(l - 1);
				Par::LL(left as P, (l - left) as P)
			}
		}
		ParKind::W => {
			let n = len.max(1) as usize;
			let kind = rng.below(4);
			let w: Vec<V> = (0..n)
				.map(|i| match kind {
					0 => 1.0 + rng.below(4) as f64,
					1 => (i + 1) as f64,
					2 => rng.range(-3, 5) as f64 + 0.5,
					_ => 0.25 * rng.below(9) as f64 + if i == 0 { 1.0 } else { 0.0 },
				} as V)
				.collect();
			Par::W(w)
		}
		ParKind::Renko => {
			let s = *rng.pick(&[0.01, 0.001, 0.05, 0.1, 0.25]);
			let src = *rng.pick(&[Source::Close, Source::Close, Source::HL2, Source::TP, Source::Open, Source::High, Source::Low]);
			Par::Renko(s as V, src)
		}
		ParKind::Sz => Par::Sz(len.max(1) as usize),
	}
}

/// input stream for a method; element 0 is meant to be used as the construction value as well
pub fn stream_for(m: &MDesc, class: usize, seed: u64, len: usize, n_hint: usize) -> Vec<In> {
	match m.inp {
		InKind::V => {
			let mut v = gen::values(class % 10, seed, len, n_hint);
			if m.name == "SMM" || m.name.contains("Highest") || m.name.contains("Lowest") {
				for x in v.iter_mut() {
					if !x.is_finite() {
						*x = 0.0;
					}
				}
			}
			if m.name == "RateOfChange" {
				// relative changes need non-zero (positive) inputs to be defined
				for x in v.iter_mut() {
					*x = gen::q(x.abs() + 0.5);
				}
			}
			v.into_iter().map(|x| In::V(x as V)).collect()
		}
		InKind::P => {
			let a = gen::values(class % 10, seed, len, n_hint);
			if m.name == "VWMA" {
				let mut r = Rng::new(seed ^ 0x77);
				let grid = matches!(class % 10, 2 | 6 | 7);
				// zero-volume stretches (valid input): on grid volumes the running volume sum returns to exactly 0
				let mut zero_left = 0usize;
				a.into_iter()
					.map(|x| {
						if grid && zero_left == 0 && r.chance(0.03) {
							zero_left = 1 + r.below(2 * n_hint as u64 + 3) as usize;
						}
						let vol = if zero_left > 0 {
							zero_left -= 1;
							0.0
						} else if grid {
							gen::grid_volume(&mut r) + 0.25
						} else {
							gen::q(0.1 + 10.0 * r.f())
						};
						In::P(x as V, vol as V)
					})
					.collect()
			} else {
				let b = gen::values((class / 10 + 1) % 10, seed ^ 0xB, len, n_hint);
				let mut r = Rng::new(seed ^ 0x78);
				a.into_iter().zip(b).map(|(x, y)| if r.chance(0.15) { In::P(x as V, x as V) } else { In::P(x as V, y as V) }).collect()
			}
		}
		InKind::C => gen::candles(class % gen::CANDLE_CLASSES.len(), seed, len, n_hint).into_iter().map(In::C).collect(),
	}
}

/// a spread of lengths for a method: boundary lengths always, the rest rotated by seed
pub fn lengths(m: &MDesc, count: usize, seed: u64) -> Vec<u64> {
	if m.par == ParKind::U || m.par == ParKind::Renko {
		return vec![1];
	}
	let lo = m.min_len.max(1);
	let hi = if m.par == ParKind::Sz { 64 } else { m.max_len.min(if P::MAX as u64 > 255 { 400 } else { 255 }) };
	let lo = if m.par == ParKind::LL && m.name != "TSI" { 2 } else { lo };
	let mut v: Vec<u64> = vec![lo, lo + 1, lo + 2, hi, hi - 1, 7.min(hi), 14.min(hi)];
	let mut r = Rng::new(seed ^ crate::rng::hash_str(m.name));
	while v.len() < count {
		v.push(lo + r.below(hi - lo + 1));
	}
	v.sort_unstable();
	v.dedup();
	v.retain(|x| *x >= lo && *x <= hi);
	v
}

pub fn all_lengths(m: &MDesc) -> Vec<u64> {
	if m.par == ParKind::U || m.par == ParKind::Renko {
		return vec![1];
	}
	let lo = if m.par == ParKind::LL && m.name != "TSI" { 2 } else { m.min_len.max(1) };
	let hi = if m.par == ParKind::Sz { 64 } else { m.max_len };
	(lo..=hi).collect()
}

pub fn show_in(x: &In) -> serde_json::Value {
	use crate::rep::fj;
	match x {
		In::V(v) => fj(*v as f64),
		In::P(a, b) => serde_json::json!([fj(*a as f64), fj(*b as f64)]),
		In::C(c) => serde_json::json!([fj(c.open as f64), fj(c.high as f64), fj(c.low as f64), fj(c.close as f64), fj(c.volume as f64)]),
	}
}
pub fn show_ins(xs: &[In]) -> serde_json::Value {
	serde_json::Value::Array(xs.iter().map(show_in).collect())
}
