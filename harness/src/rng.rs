//! Small deterministic PRNG (xoshiro256** seeded by splitmix64). No external crates.
#[derive(Clone, Debug)]
pub struct Rng {
	s: [u64; 4],
}

pub fn splitmix(x: &mut u64) -> u64 {
	*x = x.wrapping_add(0x9E37_79B9_7F4A_7C15);
	let mut z = *x;
	z = (z ^ (z >> 30)).wrapping_mul(0xBF58_476D_1CE4_E5B9);
	z = (z ^ (z >> 27)).wrapping_mul(0x94D0_49BB_1331_11EB);
	z ^ (z >> 31)
}

/// mixes several integers into one seed
pub fn mix(parts: &[u64]) -> u64 {
	let mut h = 0x243F_6A88_85A3_08D3u64;
	for &p in parts {
		h ^= p.wrapping_mul(0x9E37_79B9_7F4A_7C15);
		let mut t = h;
		h = splitmix(&mut t);
	}
	h
}

pub fn hash_str(s: &str) -> u64 {
	let mut h = 0xcbf2_9ce4_8422_2325u64;
	for b in s.bytes() {
		h ^= b as u64;
		h = h.wrapping_mul(0x0000_0100_0000_01B3);
	}
	h
}

impl Rng {
	pub fn new(seed: u64) -> Self {
		let mut x = seed;
		let s = [splitmix(&mut x), splitmix(&mut x), splitmix(&mut x), splitmix(&mut x)];
		Self { s }
	}
	#[inline]
	pub fn u64(&mut self) -> u64 {
		let r = self.s[1].wrapping_mul(5).rotate_left(7).wrapping_mul(9);
		let t = self.s[1] << 17;
		self.s[2] ^= self.s[0];
		self.s[3] ^= self.s[1];
		self.s[1] ^= self.s[2];
		self.s[0] ^= self.s[3];
		self.s[2] ^= t;
		self.s[3] = self.s[3].rotate_left(45);
		r
	}
	/// uniform in [0, n)
	#[inline]
	pub fn below(&mut self, n: u64) -> u64 {
		if n == 0 {
			return 0;
		}
		((self.u64() as u128 * n as u128) >> 64) as u64
	}
	#[inline]
	pub fn range(&mut self, lo: i64, hi: i64) -> i64 {
		lo + self.below((hi - lo + 1) as u64) as i64
	}
	/// uniform in [0,1)
	#[inline]
	pub fn f(&mut self) -> f64 {
		(self.u64() >> 11) as f64 * (1.0 / 9_007_199_254_740_992.0)
	}
	#[inline]
	pub fn sf(&mut self) -> f64 {
		self.f() * 2.0 - 1.0
	}
	#[inline]
	pub fn chance(&mut self, p: f64) -> bool {
		self.f() < p
	}
	pub fn pick<'a, T>(&mut self, xs: &'a [T]) -> &'a T {
		&xs[self.below(xs.len() as u64) as usize]
	}
	/// rough gaussian
	pub fn gauss(&mut self) -> f64 {
		let mut s = 0.0;
		for _ in 0..6 {
			s += self.f();
		}
		(s - 3.0) * 1.414
	}
}
