#![allow(dead_code, unused_variables, unused_imports, unused_mut, unused_macros, clippy::all)]
mod ap;
mod errm;
mod gen;
mod icfg;
mod work;
mod refi;
mod refm;
mod reg;
mod rep;
mod rng;
mod sv;
mod props;

pub type V = yata::core::ValueType;
pub type P = yata::core::PeriodType;

use serde_json::Value;

#[derive(Clone, Debug)]
pub struct Ctx {
	pub thorough: bool,
	pub seed: u64,
	pub shard: u64,
	pub nshards: u64,
	pub replay: Option<Value>,
	pub arg: Option<String>,
}

impl Ctx {
	#[inline]
	pub fn mine(&self, k: u64) -> bool {
		k % self.nshards == self.shard
	}
	pub fn pick<T>(&self, quick: T, thorough: T) -> T {
		if self.thorough {
			thorough
		} else {
			quick
		}
	}
	pub fn tier(&self) -> &'static str {
		if self.thorough {
			"thorough"
		} else {
			"quick"
		}
	}
}

pub fn build_id() -> String {
	let mut f = Vec::new();
	if cfg!(feature = "unsafe_performance") {
		f.push("unsafe_performance");
	}
	if cfg!(feature = "period_type_u16") {
		f.push("period_type_u16");
	}
	if cfg!(feature = "period_type_u32") {
		f.push("period_type_u32");
	}
	if cfg!(feature = "period_type_u64") {
		f.push("period_type_u64");
	}
	if cfg!(feature = "value_type_f32") {
		f.push("value_type_f32");
	}
	let prof = if cfg!(debug_assertions) { "checked" } else { "release" };
	format!("{}|{}{}", if f.is_empty() { "default".to_string() } else { f.join("+") }, prof, if cfg!(yata_verif) { "|hooks" } else { "" })
}

fn main() {
	let args: Vec<String> = std::env::args().collect();
	if args.len() < 2 {
		eprintln!("usage: yv <PROP|cmd> [--tier quick|thorough] [--seed N] [--shard i] [--nshards n] [--replay file] [--arg s]");
		std::process::exit(2);
	}
	let prop = args[1].clone();
	let mut ctx = Ctx { thorough: false, seed: 0, shard: 0, nshards: 1, replay: None, arg: None };
	let mut i = 2;
	while i < args.len() {
		let a = args[i].as_str();
		let val = args.get(i + 1).cloned().unwrap_or_default();
		match a {
			"--tier" => ctx.thorough = val == "thorough",
			"--seed" => ctx.seed = val.parse().unwrap_or(0),
			"--shard" => ctx.shard = val.parse().unwrap_or(0),
			"--nshards" => ctx.nshards = val.parse::<u64>().unwrap_or(1).max(1),
			"--arg" => ctx.arg = Some(val),
			"--replay" => {
				let txt = std::fs::read_to_string(&val).unwrap_or_else(|e| {
					eprintln!("cannot read replay file {val}: {e}");
					std::process::exit(2)
				});
				let v: Value = serde_json::from_str(&txt).unwrap_or_else(|e| {
					eprintln!("cannot parse replay file {val}: {e}");
					std::process::exit(2)
				});
				ctx.replay = Some(v);
			}
			_ => {
				eprintln!("unknown argument {a}");
				std::process::exit(2);
			}
		}
		i += 2;
	}
	if prop == "build-id" {
		println!("{}", build_id());
		return;
	}
	rep::install_panic_hook();
	let mut r = rep::Report::new(&prop);
	// a panic that escapes a monitor: inside the crate under test it is a violation of the monitored property (the monitors
	// guard every call for which a panic is a legitimate outcome); inside the harness it is a harness error (shard dies => inconclusive)
	let known = match rep::guard(|| props::run(&prop, &ctx, &mut r)) {
		Ok(k) => k,
		Err(p) => {
			if p.loc.contains("/repo/src/") {
				let base = if prop == "PROGRAMS" || prop == "C20W" { "C20".to_string() } else { prop.clone() };
				let sig = format!("{base}|panic-escaped-monitor:{}@{}", p.class(), p.file());
				r.violate(&sig, &format!("the crate panicked in a call the monitor expects to be total: {} ({})", p.msg, p.loc), || serde_json::json!({"shard": ctx.shard, "nshards": ctx.nshards, "seed": ctx.seed, "location": p.loc}));
				true
			} else {
				eprintln!("harness panic: {} ({})", p.msg, p.loc);
				std::process::exit(101);
			}
		}
	};
	if !known {
		eprintln!("unknown property/command {prop}");
		std::process::exit(2);
	}
	#[cfg(yata_verif)]
	{
		let (a, c) = yata::verif::counters();
		r.count("hook_unchecked_accesses_observed", a);
		r.count("hook_raw_copies_observed", c);
	}
	let mut j = r.to_json();
	j["build"] = Value::String(build_id());
	println!("YVREPORT {}", serde_json::to_string(&j).unwrap());
}
