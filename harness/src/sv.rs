//! Bit-exact in-memory serde format (self-describing value tree).
//!
//! JSON cannot carry NaN / infinities (serde_json turns them into `null`, which does not deserialize into a
//! float), so snapshots whose state contains a NaN (candles without volume, VWMA over a zero-volume window, an
//! indicator after a 0/0 step) could not be round-tripped at all through `serde_json::Value`. This format keeps
//! every float as its bit pattern. It is used by the C13 / C19 monitors next to the JSON route.
use serde::de::{self, DeserializeSeed, EnumAccess, IntoDeserializer, MapAccess, SeqAccess, VariantAccess, Visitor};
use serde::ser::{self, Serialize};
use std::fmt;

#[derive(Clone, Debug, PartialEq)]
pub enum SV {
	Unit,
	Bool(bool),
	U(u64),
	I(i64),
	F32(u32),
	F64(u64),
	Str(String),
	Opt(Option<Box<SV>>),
	Seq(Vec<SV>),
	Map(Vec<(SV, SV)>),
	/// enum variant: name and payload (None for unit variants)
	Var(String, Option<Box<SV>>),
}

impl SV {
	/// does the tree contain a non-finite float?
	pub fn has_nonfinite(&self) -> bool {
		match self {
			SV::F32(b) => !f32::from_bits(*b).is_finite(),
			SV::F64(b) => !f64::from_bits(*b).is_finite(),
			SV::Opt(Some(x)) => x.has_nonfinite(),
			SV::Var(_, Some(x)) => x.has_nonfinite(),
			SV::Seq(v) => v.iter().any(SV::has_nonfinite),
			SV::Map(v) => v.iter().any(|(k, x)| k.has_nonfinite() || x.has_nonfinite()),
			_ => false,
		}
	}
	/// flat list of words (for hashing / comparing two snapshots bit by bit)
	pub fn words(&self, out: &mut Vec<u64>) {
		match self {
			SV::Unit => out.push(0),
			SV::Bool(b) => out.push(1 + *b as u64),
			SV::U(x) => out.push(*x),
			SV::I(x) => out.push(*x as u64),
			SV::F32(b) => out.push(*b as u64),
			SV::F64(b) => out.push(*b),
			SV::Str(s) => out.extend(s.bytes().map(|b| b as u64)),
			SV::Opt(None) => out.push(3),
			SV::Opt(Some(x)) => {
				out.push(4);
				x.words(out)
			}
			SV::Seq(v) => {
				out.push(v.len() as u64);
				v.iter().for_each(|x| x.words(out))
			}
			SV::Map(v) => {
				out.push(v.len() as u64);
				v.iter().for_each(|(k, x)| {
					k.words(out);
					x.words(out)
				})
			}
			SV::Var(n, p) => {
				out.extend(n.bytes().map(|b| b as u64));
				if let Some(p) = p {
					p.words(out)
				}
			}
		}
	}
}

#[derive(Debug)]
pub struct SvErr(pub String);
impl fmt::Display for SvErr {
	fn fmt(&self, f: &mut fmt::Formatter<'_>) -> fmt::Result {
		f.write_str(&self.0)
	}
}
impl std::error::Error for SvErr {}
impl ser::Error for SvErr {
	fn custom<T: fmt::Display>(m: T) -> Self {
		SvErr(m.to_string())
	}
}
impl de::Error for SvErr {
	fn custom<T: fmt::Display>(m: T) -> Self {
		SvErr(m.to_string())
	}
}

pub fn to_sv<T: Serialize + ?Sized>(t: &T) -> Result<SV, String> {
	t.serialize(Ser).map_err(|e| e.0)
}
thread_local! {
	static POSITIONAL: std::cell::Cell<bool> = std::cell::Cell::new(false);
}
/// positional flavour (what bincode / postcard style formats do): structs are written as the sequence of their field values,
/// without names, and read back with `visit_seq` in declaration order - a Deserialize whose field order differs from what
/// Serialize writes is invisible to every name-based format
pub fn to_sv_positional<T: Serialize + ?Sized>(t: &T) -> Result<SV, String> {
	POSITIONAL.with(|p| p.set(true));
	let r = t.serialize(Ser).map_err(|e| e.0);
	POSITIONAL.with(|p| p.set(false));
	r
}
pub fn from_sv<T: de::DeserializeOwned>(v: &SV) -> Result<T, String> {
	T::deserialize(v.clone()).map_err(|e| e.0)
}

// ---------------------------------------------------------------- serializer
pub struct Ser;
pub struct SeqSer(Vec<SV>, Option<String>);
pub struct MapSer(Vec<(SV, SV)>, Option<SV>, Option<String>, bool);

impl ser::Serializer for Ser {
	type Ok = SV;
	type Error = SvErr;
	type SerializeSeq = SeqSer;
	type SerializeTuple = SeqSer;
	type SerializeTupleStruct = SeqSer;
	type SerializeTupleVariant = SeqSer;
	type SerializeMap = MapSer;
	type SerializeStruct = MapSer;
	type SerializeStructVariant = MapSer;
	fn serialize_bool(self, v: bool) -> Result<SV, SvErr> {
		Ok(SV::Bool(v))
	}
	fn serialize_i8(self, v: i8) -> Result<SV, SvErr> {
		Ok(SV::I(v as i64))
	}
	fn serialize_i16(self, v: i16) -> Result<SV, SvErr> {
		Ok(SV::I(v as i64))
	}
	fn serialize_i32(self, v: i32) -> Result<SV, SvErr> {
		Ok(SV::I(v as i64))
	}
	fn serialize_i64(self, v: i64) -> Result<SV, SvErr> {
		Ok(SV::I(v))
	}
	fn serialize_u8(self, v: u8) -> Result<SV, SvErr> {
		Ok(SV::U(v as u64))
	}
	fn serialize_u16(self, v: u16) -> Result<SV, SvErr> {
		Ok(SV::U(v as u64))
	}
	fn serialize_u32(self, v: u32) -> Result<SV, SvErr> {
		Ok(SV::U(v as u64))
	}
	fn serialize_u64(self, v: u64) -> Result<SV, SvErr> {
		Ok(SV::U(v))
	}
	fn serialize_f32(self, v: f32) -> Result<SV, SvErr> {
		Ok(SV::F32(v.to_bits()))
	}
	fn serialize_f64(self, v: f64) -> Result<SV, SvErr> {
		Ok(SV::F64(v.to_bits()))
	}
	fn serialize_char(self, v: char) -> Result<SV, SvErr> {
		Ok(SV::Str(v.to_string()))
	}
	fn serialize_str(self, v: &str) -> Result<SV, SvErr> {
		Ok(SV::Str(v.to_string()))
	}
	fn serialize_bytes(self, v: &[u8]) -> Result<SV, SvErr> {
		Ok(SV::Seq(v.iter().map(|b| SV::U(*b as u64)).collect()))
	}
	fn serialize_none(self) -> Result<SV, SvErr> {
		Ok(SV::Opt(None))
	}
	fn serialize_some<T: ?Sized + Serialize>(self, v: &T) -> Result<SV, SvErr> {
		Ok(SV::Opt(Some(Box::new(v.serialize(Ser)?))))
	}
	fn serialize_unit(self) -> Result<SV, SvErr> {
		Ok(SV::Unit)
	}
	fn serialize_unit_struct(self, _: &'static str) -> Result<SV, SvErr> {
		Ok(SV::Unit)
	}
	fn serialize_unit_variant(self, _: &'static str, _: u32, variant: &'static str) -> Result<SV, SvErr> {
		Ok(SV::Var(variant.to_string(), None))
	}
	fn serialize_newtype_struct<T: ?Sized + Serialize>(self, _: &'static str, v: &T) -> Result<SV, SvErr> {
		v.serialize(Ser)
	}
	fn serialize_newtype_variant<T: ?Sized + Serialize>(self, _: &'static str, _: u32, variant: &'static str, v: &T) -> Result<SV, SvErr> {
		Ok(SV::Var(variant.to_string(), Some(Box::new(v.serialize(Ser)?))))
	}
	fn serialize_seq(self, n: Option<usize>) -> Result<SeqSer, SvErr> {
		Ok(SeqSer(Vec::with_capacity(n.unwrap_or(0)), None))
	}
	fn serialize_tuple(self, n: usize) -> Result<SeqSer, SvErr> {
		Ok(SeqSer(Vec::with_capacity(n), None))
	}
	fn serialize_tuple_struct(self, _: &'static str, n: usize) -> Result<SeqSer, SvErr> {
		Ok(SeqSer(Vec::with_capacity(n), None))
	}
	fn serialize_tuple_variant(self, _: &'static str, _: u32, variant: &'static str, n: usize) -> Result<SeqSer, SvErr> {
		Ok(SeqSer(Vec::with_capacity(n), Some(variant.to_string())))
	}
	fn serialize_map(self, _: Option<usize>) -> Result<MapSer, SvErr> {
		Ok(MapSer(Vec::new(), None, None, false))
	}
	fn serialize_struct(self, _: &'static str, _: usize) -> Result<MapSer, SvErr> {
		Ok(MapSer(Vec::new(), None, None, true))
	}
	fn serialize_struct_variant(self, _: &'static str, _: u32, variant: &'static str, _: usize) -> Result<MapSer, SvErr> {
		Ok(MapSer(Vec::new(), None, Some(variant.to_string()), true))
	}
}

impl SeqSer {
	fn fin(self) -> SV {
		match self.1 {
			None => SV::Seq(self.0),
			Some(n) => SV::Var(n, Some(Box::new(SV::Seq(self.0)))),
		}
	}
}
impl MapSer {
	fn fin(self) -> SV {
		let body = if self.3 && POSITIONAL.with(|p| p.get()) { SV::Seq(self.0.into_iter().map(|(_, v)| v).collect()) } else { SV::Map(self.0) };
		match self.2 {
			None => body,
			Some(n) => SV::Var(n, Some(Box::new(body))),
		}
	}
}
impl ser::SerializeSeq for SeqSer {
	type Ok = SV;
	type Error = SvErr;
	fn serialize_element<T: ?Sized + Serialize>(&mut self, v: &T) -> Result<(), SvErr> {
		self.0.push(v.serialize(Ser)?);
		Ok(())
	}
	fn end(self) -> Result<SV, SvErr> {
		Ok(self.fin())
	}
}
impl ser::SerializeTuple for SeqSer {
	type Ok = SV;
	type Error = SvErr;
	fn serialize_element<T: ?Sized + Serialize>(&mut self, v: &T) -> Result<(), SvErr> {
		self.0.push(v.serialize(Ser)?);
		Ok(())
	}
	fn end(self) -> Result<SV, SvErr> {
		Ok(self.fin())
	}
}
impl ser::SerializeTupleStruct for SeqSer {
	type Ok = SV;
	type Error = SvErr;
	fn serialize_field<T: ?Sized + Serialize>(&mut self, v: &T) -> Result<(), SvErr> {
		self.0.push(v.serialize(Ser)?);
		Ok(())
	}
	fn end(self) -> Result<SV, SvErr> {
		Ok(self.fin())
	}
}
impl ser::SerializeTupleVariant for SeqSer {
	type Ok = SV;
	type Error = SvErr;
	fn serialize_field<T: ?Sized + Serialize>(&mut self, v: &T) -> Result<(), SvErr> {
		self.0.push(v.serialize(Ser)?);
		Ok(())
	}
	fn end(self) -> Result<SV, SvErr> {
		Ok(self.fin())
	}
}
impl ser::SerializeMap for MapSer {
	type Ok = SV;
	type Error = SvErr;
	fn serialize_key<T: ?Sized + Serialize>(&mut self, k: &T) -> Result<(), SvErr> {
		self.1 = Some(k.serialize(Ser)?);
		Ok(())
	}
	fn serialize_value<T: ?Sized + Serialize>(&mut self, v: &T) -> Result<(), SvErr> {
		let k = self.1.take().ok_or_else(|| SvErr("value without key".into()))?;
		self.0.push((k, v.serialize(Ser)?));
		Ok(())
	}
	fn end(self) -> Result<SV, SvErr> {
		Ok(self.fin())
	}
}
impl ser::SerializeStruct for MapSer {
	type Ok = SV;
	type Error = SvErr;
	fn serialize_field<T: ?Sized + Serialize>(&mut self, k: &'static str, v: &T) -> Result<(), SvErr> {
		self.0.push((SV::Str(k.to_string()), v.serialize(Ser)?));
		Ok(())
	}
	fn end(self) -> Result<SV, SvErr> {
		Ok(self.fin())
	}
}
impl ser::SerializeStructVariant for MapSer {
	type Ok = SV;
	type Error = SvErr;
	fn serialize_field<T: ?Sized + Serialize>(&mut self, k: &'static str, v: &T) -> Result<(), SvErr> {
		self.0.push((SV::Str(k.to_string()), v.serialize(Ser)?));
		Ok(())
	}
	fn end(self) -> Result<SV, SvErr> {
		Ok(self.fin())
	}
}

// ---------------------------------------------------------------- deserializer
struct SeqDe(std::vec::IntoIter<SV>);
impl<'de> SeqAccess<'de> for SeqDe {
	type Error = SvErr;
	fn next_element_seed<T: DeserializeSeed<'de>>(&mut self, seed: T) -> Result<Option<T::Value>, SvErr> {
		match self.0.next() {
			Some(v) => seed.deserialize(v).map(Some),
			None => Ok(None),
		}
	}
	fn size_hint(&self) -> Option<usize> {
		Some(self.0.len())
	}
}
struct MapDe(std::vec::IntoIter<(SV, SV)>, Option<SV>);
impl<'de> MapAccess<'de> for MapDe {
	type Error = SvErr;
	fn next_key_seed<K: DeserializeSeed<'de>>(&mut self, seed: K) -> Result<Option<K::Value>, SvErr> {
		match self.0.next() {
			Some((k, v)) => {
				self.1 = Some(v);
				seed.deserialize(k).map(Some)
			}
			None => Ok(None),
		}
	}
	fn next_value_seed<T: DeserializeSeed<'de>>(&mut self, seed: T) -> Result<T::Value, SvErr> {
		seed.deserialize(self.1.take().ok_or_else(|| SvErr("value without key".into()))?)
	}
}
struct EnumDe(String, Option<SV>);
impl<'de> EnumAccess<'de> for EnumDe {
	type Error = SvErr;
	type Variant = VarDe;
	fn variant_seed<T: DeserializeSeed<'de>>(self, seed: T) -> Result<(T::Value, VarDe), SvErr> {
		let d: de::value::StringDeserializer<SvErr> = self.0.into_deserializer();
		Ok((seed.deserialize(d)?, VarDe(self.1)))
	}
}
struct VarDe(Option<SV>);
impl<'de> VariantAccess<'de> for VarDe {
	type Error = SvErr;
	fn unit_variant(self) -> Result<(), SvErr> {
		match self.0 {
			None | Some(SV::Unit) => Ok(()),
			Some(x) => Err(SvErr(format!("unit variant with payload {x:?}"))),
		}
	}
	fn newtype_variant_seed<T: DeserializeSeed<'de>>(self, seed: T) -> Result<T::Value, SvErr> {
		seed.deserialize(self.0.ok_or_else(|| SvErr("newtype variant without payload".into()))?)
	}
	fn tuple_variant<V: Visitor<'de>>(self, _: usize, v: V) -> Result<V::Value, SvErr> {
		match self.0 {
			Some(SV::Seq(s)) => v.visit_seq(SeqDe(s.into_iter())),
			x => Err(SvErr(format!("tuple variant with payload {x:?}"))),
		}
	}
	fn struct_variant<V: Visitor<'de>>(self, _: &'static [&'static str], v: V) -> Result<V::Value, SvErr> {
		match self.0 {
			Some(SV::Map(m)) => v.visit_map(MapDe(m.into_iter(), None)),
			Some(SV::Seq(s)) => v.visit_seq(SeqDe(s.into_iter())),
			x => Err(SvErr(format!("struct variant with payload {x:?}"))),
		}
	}
}

impl<'de> de::Deserializer<'de> for SV {
	type Error = SvErr;
	fn deserialize_any<V: Visitor<'de>>(self, v: V) -> Result<V::Value, SvErr> {
		match self {
			SV::Unit => v.visit_unit(),
			SV::Bool(b) => v.visit_bool(b),
			SV::U(x) => v.visit_u64(x),
			SV::I(x) => v.visit_i64(x),
			SV::F32(b) => v.visit_f32(f32::from_bits(b)),
			SV::F64(b) => v.visit_f64(f64::from_bits(b)),
			SV::Str(s) => v.visit_string(s),
			SV::Opt(None) => v.visit_none(),
			SV::Opt(Some(x)) => v.visit_some(*x),
			SV::Seq(s) => v.visit_seq(SeqDe(s.into_iter())),
			SV::Map(m) => v.visit_map(MapDe(m.into_iter(), None)),
			SV::Var(n, p) => v.visit_enum(EnumDe(n, p.map(|b| *b))),
		}
	}
	fn deserialize_option<V: Visitor<'de>>(self, v: V) -> Result<V::Value, SvErr> {
		match self {
			SV::Opt(None) | SV::Unit => v.visit_none(),
			SV::Opt(Some(x)) => v.visit_some(*x),
			x => v.visit_some(x),
		}
	}
	fn deserialize_newtype_struct<V: Visitor<'de>>(self, _: &'static str, v: V) -> Result<V::Value, SvErr> {
		v.visit_newtype_struct(self)
	}
	fn deserialize_enum<V: Visitor<'de>>(self, _: &'static str, _: &'static [&'static str], v: V) -> Result<V::Value, SvErr> {
		match self {
			SV::Var(n, p) => v.visit_enum(EnumDe(n, p.map(|b| *b))),
			SV::Str(s) => v.visit_enum(EnumDe(s, None)),
			x => Err(SvErr(format!("expected an enum, found {x:?}"))),
		}
	}
	serde::forward_to_deserialize_any! {
		bool i8 i16 i32 i64 i128 u8 u16 u32 u64 u128 f32 f64 char str string bytes byte_buf unit unit_struct
		seq tuple tuple_struct map struct identifier ignored_any
	}
}
