//! Error models of DESIGN §3.2: a-priori radius of a correct implementation of each algorithm class.
use crate::ap::{C, EPS, TINY};
use crate::reg::Class;

/// radius at step t (number of next calls so far) for window length n and output scale s
pub fn radius(class: Class, n: f64, t: f64, s: f64, flops: f64) -> f64 {
	let n = n.max(1.0);
	if s == 0.0 {
		// nothing but exact zeros so far: every linear update is exact
		return 0.0;
	}
	let r = match class {
		Class::Direct => C * EPS * s * (flops + n),
		Class::Contraction => C * EPS * s * ((n + 1.0) / 2.0 + flops),
		Class::Accum => C * EPS * s * (n + t + flops),
		Class::Nested => C * EPS * s * (n + t + t * t / (2.0 * n) + flops),
		Class::Cumulative => C * EPS * s * (t + flops),
		Class::Select => 0.0,
	};
	r + TINY
}

/// natural scale of the output of a method given the magnitude of its history
pub fn out_scale(name: &str, n: f64, m: f64) -> f64 {
	match name {
		"Integral" | "ADI" => n.max(1.0) * m,
		"Momentum" | "HighestLowestDelta" | "TR" => 2.0 * m,
		"Derivative" => 2.0 * m / n.max(1.0),
		"LinearVolatility" => 2.0 * n * m,
		"StDev" => m,
		"HMA" | "DEMA" | "TEMA" | "LinReg" => 4.0 * m,
		_ => m,
	}
}
