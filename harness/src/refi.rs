//! Indicator references (DESIGN Appendix A.2): values as `Ap`, signals as three-valued expectations.
//! Built from the method references of `refm` lifted to approximate inputs.
use crate::ap::{Ap, Tri, C, EPS};
use crate::refm::{make_ref, RefM};
use crate::reg::{In, Par};
use crate::{P, V};
use serde_json::Value;
use std::collections::VecDeque;
use yata::core::{Candle, Source, OHLCV};

/// expectation for one signal slot
#[derive(Clone, Debug)]
pub enum Sig {
	/// full-strength signal with this sign (-1, 0, +1)
	Full(i8),
	/// proportional signal Action::from(ratio)
	Ratio(Ap),
	/// the deciding quantity is within the rounding allowance of its threshold
	Exempt,
}

impl Sig {
	pub fn from_tri(buy: Tri, sell: Tri) -> Sig {
		// buy - sell as i8, three-valued
		match (buy, sell) {
			(Tri::Maybe, _) | (_, Tri::Maybe) => Sig::Exempt,
			(b, s) => Sig::Full((b == Tri::Yes) as i8 - (s == Tri::Yes) as i8),
		}
	}
	pub fn neg(self) -> Sig {
		match self {
			Sig::Full(s) => Sig::Full(-s),
			Sig::Ratio(a) => Sig::Ratio(-a),
			Sig::Exempt => Sig::Exempt,
		}
	}
}

pub trait RefI {
	/// `got`: the implementation's values of this step, used only to re-synchronise recursive references
	/// after a step that was undefined within the allowance
	fn next(&mut self, c: &Candle, got: &[f64]) -> (Vec<Ap>, Vec<Sig>);
	/// what the *documentation* says for the last step, where it differs from what the code does
	/// (DESIGN 5 #16): (finding signature suffix, slot, expectation)
	fn doc_signals(&self) -> Vec<(&'static str, usize, Sig)> {
		Vec::new()
	}
	fn doc_values(&self) -> Vec<(&'static str, usize, Ap)> {
		Vec::new()
	}
}

// ---------------------------------------------------------------------------------------------
// configuration access

pub fn cfg_p(cfg: &Value, name: &str) -> usize {
	cfg.get(name).and_then(Value::as_u64).unwrap_or_else(|| panic!("harness: config field {name} missing")) as usize
}
pub fn cfg_f(cfg: &Value, name: &str) -> f64 {
	cfg.get(name).and_then(Value::as_f64).unwrap_or_else(|| panic!("harness: config field {name} missing"))
}
pub fn cfg_b(cfg: &Value, name: &str) -> bool {
	cfg.get(name).and_then(Value::as_bool).unwrap_or(false)
}
pub fn cfg_ma(cfg: &Value, name: &str) -> (String, usize) {
	let m = cfg.get(name).and_then(Value::as_object).unwrap_or_else(|| panic!("harness: config field {name} missing"));
	let (k, v) = m.iter().next().unwrap();
	(k.clone(), v.as_u64().unwrap() as usize)
}
pub fn cfg_src(cfg: &Value, name: &str) -> Source {
	match cfg.get(name).and_then(Value::as_str).unwrap_or("close") {
		"close" => Source::Close,
		"open" => Source::Open,
		"high" => Source::High,
		"low" => Source::Low,
		"hl2" => Source::HL2,
		"tp" => Source::TP,
		"volume" => Source::Volume,
		"volumed_price" => Source::VolumedPrice,
		s => panic!("harness: unknown source {s}"),
	}
}

/// source value as the implementation computes it (bit-exact helpers, judged by C18): exact for our purposes
pub fn src(c: &Candle, s: Source) -> Ap {
	Ap::exact(c.source(s) as f64)
}
pub fn ex(x: V) -> Ap {
	Ap::exact(x as f64)
}

// ---------------------------------------------------------------------------------------------
// moving averages over approximate inputs

fn ma_name(key: &str) -> &'static str {
	match key {
		"sma" => "SMA",
		"wma" => "WMA",
		"hma" => "HMA",
		"rma" => "RMA",
		"ema" => "EMA",
		"dma" => "DMA",
		"dema" => "DEMA",
		"tma" => "TMA",
		"tema" => "TEMA",
		"wsma" => "WSMA",
		"smm" => "SMM",
		"swma" => "SWMA",
		"trima" => "TRIMA",
		"lin_reg" => "LinReg",
		"vidya" => "Vidya",
		k => panic!("harness: unknown MA kind {k}"),
	}
}

pub struct MaRef {
	name: &'static str,
	n: usize,
	inner: Option<Box<dyn RefM>>,
	/// input radii over the horizon (FIR kinds)
	ein: VecDeque<f64>,
	horizon: usize,
	amp: f64,
	/// contraction stages (IIR kinds)
	alpha: f64,
	es: [f64; 3],
	/// SMM: window of midpoints
	win: VecDeque<f64>,
	init_e: f64,
	/// vidya: interval state
	vy: Ap,
	vmin: f64,
	vmax: f64,
	dead: bool,
}

impl MaRef {
	pub fn new(key: &str, n: usize, init: Ap) -> MaRef {
		let name = ma_name(key);
		let nn = n.max(1);
		let (horizon, amp) = match name {
			"SMA" | "WMA" | "SWMA" | "SMM" => (nn, 1.0),
			"TRIMA" => (2 * nn, 1.0),
			"HMA" => (nn + (nn as f64).sqrt() as usize + 1, 3.0),
			"LinReg" => (nn, crate::refm::linreg_weights(nn).iter().map(|w| w.abs()).sum::<f64>()),
			_ => (0, 1.0),
		};
		let alpha = match name {
			"RMA" | "WSMA" => 1.0 / nn as f64,
			_ => 2.0 / (nn as f64 + 1.0),
		};
		let inner = if name == "SMM" { None } else { make_ref(name, &Par::L(nn as P), &In::V(init.v as V)) };
		MaRef {
			name,
			n: nn,
			inner,
			ein: VecDeque::new(),
			horizon,
			amp,
			alpha,
			es: [init.e; 3],
			win: std::iter::repeat(init.v).take(nn).collect(),
			init_e: init.e,
			vy: init,
			vmin: init.lo(),
			vmax: init.hi(),
			dead: init.is_undefined(),
		}
	}
	pub fn from_cfg(cfg: &Value, field: &str, init: Ap) -> MaRef {
		let (k, n) = cfg_ma(cfg, field);
		MaRef::new(&k, n, init)
	}
	pub fn next(&mut self, x: Ap) -> Ap {
		if x.is_undefined() || self.dead {
			// The averages are incremental (running sums / recurrences): a step whose input is undefined within
			// the allowance (0/0, division by an ambiguous zero) leaves their state undefined from then on.
			// (SMM re-reads its window, but asserts finite input; such steps are C10's concern.)
			self.dead = true;
			return Ap::undefined();
		}
		match self.name {
			"SMM" => {
				self.win.pop_front();
				self.win.push_back(x.v);
				self.ein.push_back(x.e);
				if self.ein.len() > self.n {
					self.ein.pop_front();
				}
				// the k-th order statistic of intervals lies between the k-th smallest lower end and the k-th smallest upper end
				let n = self.n;
				let missing = n - self.ein.len();
				let es: Vec<f64> = std::iter::repeat(self.init_e).take(missing).chain(self.ein.iter().cloned()).collect();
				let mut los: Vec<f64> = self.win.iter().zip(es.iter()).map(|(v, e)| v - e).collect();
				let mut his: Vec<f64> = self.win.iter().zip(es.iter()).map(|(v, e)| v + e).collect();
				los.sort_by(|a, b| a.partial_cmp(b).unwrap_or(std::cmp::Ordering::Equal));
				his.sort_by(|a, b| a.partial_cmp(b).unwrap_or(std::cmp::Ordering::Equal));
				let lo = (los[n / 2] + los[(n - 1) / 2]) * 0.5;
				let hi = (his[n / 2] + his[(n - 1) / 2]) * 0.5;
				if lo == hi {
					Ap::new(lo, if n % 2 == 0 { EPS * lo.abs() } else { 0.0 })
				} else {
					Ap::from_interval(lo, hi).widen(2.0 * EPS * lo.abs().max(hi.abs()))
				}
			}
			"EMA" | "DMA" | "TMA" | "DEMA" | "TEMA" | "RMA" | "WSMA" => {
				let base = self.inner.as_mut().unwrap().next_f(x.v, f64::NAN);
				let a = self.alpha;
				self.es[0] = (1.0 - a) * self.es[0] + a * x.e;
				self.es[1] = (1.0 - a) * self.es[1] + a * self.es[0];
				self.es[2] = (1.0 - a) * self.es[2] + a * self.es[1];
				let extra = match self.name {
					"EMA" | "RMA" | "WSMA" => self.es[0],
					"DMA" => self.es[1],
					"TMA" => self.es[2],
					"DEMA" => 2.0 * self.es[0] + self.es[1],
					_ => 3.0 * self.es[0] + 3.0 * self.es[1] + self.es[2],
				};
				base.widen(extra)
			}
			"Vidya" => {
				// convex combination of the previous output and the input with an adaptive weight in [0, f]:
				// with approximate inputs only the enclosure by the hull is claimed once inputs are not exact
				self.vmin = self.vmin.min(x.lo());
				self.vmax = self.vmax.max(x.hi());
				if x.e == 0.0 && !self.vy.is_undefined() && self.es[0] == 0.0 {
					let out = self.inner.as_mut().unwrap().next_f(x.v, f64::NAN);
					if out.is_undefined() || out.e > 1e-6 * (out.v.abs() + x.v.abs()) {
						// ill-conditioned ratio: fall back to the hull from here on
						self.es[0] = 1.0;
						self.vy = self.vy.hull(x);
						return self.vy;
					}
					self.vy = out;
					out
				} else {
					self.es[0] = 1.0;
					let prev = if self.vy.is_undefined() { Ap::from_interval(self.vmin, self.vmax) } else { self.vy };
					self.vy = prev.hull(x);
					self.vy
				}
			}
			_ => {
				let base = self.inner.as_mut().unwrap().next_f(x.v, f64::NAN);
				self.ein.push_back(x.e);
				if self.ein.len() > self.horizon {
					self.ein.pop_front();
				}
				let e = self.ein.iter().cloned().fold(if self.ein.len() < self.horizon { self.init_e } else { 0.0 }, f64::max);
				base.widen(self.amp * e)
			}
		}
	}
}

// ---------------------------------------------------------------------------------------------
// windows, extrema, delays over approximate values

pub struct Delay {
	buf: VecDeque<Ap>,
}
impl Delay {
	/// Past(n): returns the value pushed n steps ago (init as prehistory)
	pub fn new(n: usize, init: Ap) -> Self {
		Self { buf: std::iter::repeat(init).take(n).collect() }
	}
	pub fn next(&mut self, x: Ap) -> Ap {
		self.buf.push_back(x);
		self.buf.pop_front().unwrap()
	}
}

pub struct Extremum {
	win: VecDeque<Ap>,
	highest: bool,
}
impl Extremum {
	pub fn new(n: usize, init: Ap, highest: bool) -> Self {
		Self { win: std::iter::repeat(init).take(n.max(1)).collect(), highest }
	}
	pub fn next(&mut self, x: Ap) -> Ap {
		self.win.pop_front();
		self.win.push_back(x);
		let mut it = self.win.iter();
		let first = *it.next().unwrap();
		it.fold(first, |a, b| if a.e == 0.0 && b.e == 0.0 { Ap::exact(if self.highest { a.v.max(b.v) } else { a.v.min(b.v) }) } else if self.highest { a.max(*b) } else { a.min(*b) })
	}
}

/// sum of the last n values (init as prehistory), accumulator error model
pub struct WinSum {
	win: VecDeque<Ap>,
	t: f64,
	mag: f64,
}
impl WinSum {
	pub fn new(n: usize, init: Ap) -> Self {
		Self { win: std::iter::repeat(init).take(n.max(1)).collect(), t: 0.0, mag: init.mag() }
	}
	pub fn next(&mut self, x: Ap) -> Ap {
		self.win.pop_front();
		self.win.push_back(x);
		self.t += 1.0;
		self.mag = self.mag.max(x.mag());
		let n = self.win.len() as f64;
		if self.win.iter().any(|a| a.is_undefined()) {
			return Ap::undefined();
		}
		let v = crate::ap::ksum(self.win.iter().map(|a| a.v));
		let e: f64 = self.win.iter().map(|a| a.e).sum();
		Ap::new(v, e + crate::errm::radius(crate::reg::Class::Accum, n, self.t, n * self.mag, 4.0))
	}
}

// ---------------------------------------------------------------------------------------------
// detectors over approximate values (C14 definitions, three-valued)

pub struct CrossRef {
	prev: Ap,
}
impl CrossRef {
	/// seeded with the previous difference
	pub fn new(prev_diff: Ap) -> Self {
		Self { prev: prev_diff }
	}
	pub fn default() -> Self {
		Self { prev: Ap::exact(0.0) }
	}
	/// (above, under)
	pub fn next(&mut self, a: Ap, b: Ap) -> (Tri, Tri) {
		let d = if a.e == 0.0 && b.e == 0.0 { Ap::exact(((a.v as V) - (b.v as V)) as f64) } else { a - b };
		let p = self.prev;
		self.prev = d;
		(p.ltf(0.0).and(d.gef(0.0)), p.gtf(0.0).and(d.lef(0.0)))
	}
	pub fn cross(&mut self, a: Ap, b: Ap) -> Sig {
		let (ab, un) = self.next(a, b);
		Sig::from_tri(ab, un)
	}
	pub fn above(&mut self, a: Ap, b: Ap) -> Tri {
		self.next(a, b).0
	}
	pub fn under(&mut self, a: Ap, b: Ap) -> Tri {
		self.next(a, b).1
	}
}

/// ReversalSignal(left, right) seeded with `seed`; the real detectors attribute the seed to position 0
pub struct RevRef {
	left: usize,
	right: usize,
	seed: Ap,
	hist: Vec<Ap>,
	count: usize,
}
impl RevRef {
	pub fn new(left: usize, right: usize, seed: Ap) -> Self {
		Self { left, right, seed, hist: Vec::new(), count: 0 }
	}
	/// (upper, lower)
	pub fn next(&mut self, x: Ap) -> (Tri, Tri) {
		self.hist.push(x);
		self.count += 1;
		let keep = self.left + self.right + 1;
		if self.hist.len() > 2 * keep + 32 {
			let cut = self.hist.len() - keep;
			self.hist.drain(..cut);
		}
		let i = self.count - 1; // absolute index of x
		if i < self.right {
			return (Tri::No, Tri::No);
		}
		let p = i - self.right;
		let lo = p.saturating_sub(self.left);
		let off = self.count - self.hist.len(); // absolute index of hist[0]
		let seed = self.seed;
		let at = |j: usize, upper: bool| -> Ap {
			let v = self.hist[j - off];
			if j == 0 {
				// position 0 competes with the seed
				if upper {
					v.max(seed)
				} else {
					v.min(seed)
				}
			} else {
				v
			}
		};
		let mut up = Tri::Yes;
		let mut dn = Tri::Yes;
		let (xpu, xpl) = (at(p, true), at(p, false));
		for j in lo..p {
			up = up.and(at(j, true).le(xpu));
			dn = dn.and(at(j, false).ge(xpl));
		}
		for j in (p + 1)..=i {
			up = up.and(at(j, true).lt(xpu));
			dn = dn.and(at(j, false).gt(xpl));
		}
		(up, dn)
	}
	/// ReversalSignal = lower - upper
	pub fn signal(&mut self, x: Ap) -> Sig {
		let (u, l) = self.next_net(x);
		Sig::from_tri(l, u)
	}
	/// (upper, lower) as the combined ReversalSignal = lower - upper sees them: when both halves fire on one step (possible only
	/// for position 0, where the seed can be the maximum and the first value the minimum, or vice versa) they cancel
	pub fn next_net(&mut self, x: Ap) -> (Tri, Tri) {
		match self.next(x) {
			(Tri::Yes, Tri::Yes) => (Tri::No, Tri::No),
			(Tri::Yes, Tri::Maybe) | (Tri::Maybe, Tri::Yes) => (Tri::Maybe, Tri::Maybe),
			x => x,
		}
	}
}

/// true range max(h, pc) - min(l, pc) (exact up to one rounding)
pub fn tr(c: &Candle, prev_close: f64) -> Ap {
	let v = (c.high as f64).max(prev_close) - (c.low as f64).min(prev_close);
	Ap::rounded(v, 1.0)
}

pub fn tri_i8(buy: Tri, sell: Tri) -> Sig {
	Sig::from_tri(buy, sell)
}

// ---------------------------------------------------------------------------------------------
// the indicators (Appendix A.2). Values in the order the implementation returns them.

fn apmax_abs(a: Ap, b: Ap) -> f64 {
	a.mag().max(b.mag())
}

/// a/b with the implementation's convention `dflt` when b == 0; hull of both when b may be zero
fn guarded_div(a: Ap, b: Ap, dflt: f64, range: Option<(f64, f64)>) -> Ap {
	match b.is_zero() {
		Tri::Yes => Ap::exact(dflt),
		Tri::No => a / b,
		Tri::Maybe => match range {
			Some((lo, hi)) => Ap::from_interval(lo.min(dflt), hi.max(dflt)),
			None => Ap::undefined(),
		},
	}
}

/// exact age (0 = newest) of the newest maximal / minimal element of the last n raw values
struct ArgExt {
	win: VecDeque<f64>,
}
impl ArgExt {
	fn new(n: usize, init: f64) -> Self {
		Self { win: std::iter::repeat(init).take(n).collect() }
	}
	fn next(&mut self, x: f64) -> (usize, usize) {
		self.win.pop_front();
		self.win.push_back(x);
		let mx = self.win.iter().cloned().fold(f64::NEG_INFINITY, f64::max);
		let mn = self.win.iter().cloned().fold(f64::INFINITY, f64::min);
		(self.win.iter().rev().position(|y| *y == mx).unwrap(), self.win.iter().rev().position(|y| *y == mn).unwrap())
	}
}

struct Aroon {
	period: usize,
	zone: f64,
	ozp: f64,
	hi: ArgExt,
	lo: ArgExt,
	cross: CrossRef,
	u: i64,
	d: i64,
}
impl RefI for Aroon {
	fn next(&mut self, c: &Candle, _got: &[f64]) -> (Vec<Ap>, Vec<Sig>) {
		let hi = self.hi.next(c.high as f64).0;
		let lo = self.lo.next(c.low as f64).1;
		let p = self.period as f64;
		let up = Ap::rounded((p - hi as f64) / p, 1.0);
		let dn = Ap::rounded((p - lo as f64) / p, 1.0);
		// the two ratios are single roundings of exact small integers: compare the exact rationals
		let upx = Ap::exact(((p - hi as f64) as V / p as V) as f64);
		let dnx = Ap::exact(((p - lo as f64) as V / p as V) as f64);
		let s0 = self.cross.cross(upx, dnx);
		let s1 = Sig::Full((hi == 0) as i8 - (lo == 0) as i8);
		let z = self.zone as V;
		let up_over = upx.v as V >= (1.0 - z);
		let up_under = upx.v as V <= z;
		let dn_over = dnx.v as V >= (1.0 - z);
		let dn_under = dnx.v as V <= z;
		self.u = (self.u + 1) * (up_over && dn_under) as i64;
		self.d = (self.d + 1) * (dn_over && up_under) as i64;
		let s2 = Sig::Ratio(Ap::rounded((self.u - self.d) as f64 / self.ozp, 1.0));
		(vec![up, dn], vec![s0, s1, s2])
	}
}

struct Adx {
	forked: bool,
	overshoot: bool,
	period1: usize,
	zone: f64,
	prev_close: f64,
	hl: Delay,
	ll: Delay,
	atr: MaRef,
	pdi: MaRef,
	mdi: MaRef,
	adx: MaRef,
}
impl RefI for Adx {
	fn next(&mut self, c: &Candle, _got: &[f64]) -> (Vec<Ap>, Vec<Sig>) {
		let ph = self.hl.next(ex(c.high));
		let pl = self.ll.next(ex(c.low));
		let atr = self.atr.next(tr(c, self.prev_close));
		let (plus, minus) = match atr.is_zero() {
			Tri::Yes if !self.forked => (Ap::exact(0.0), Ap::exact(0.0)),
			Tri::Yes => (Ap::undefined(), Ap::undefined()),
			z => {
				self.prev_close = c.close as f64;
				let du = Ap::exact(((c.high) - (ph.v as V)) as f64);
				let dd = Ap::exact(((pl.v as V) - c.low) as f64);
				let pdm = if du.v > dd.v && du.v > 0.0 { du } else { Ap::exact(0.0) };
				let mdm = if dd.v > du.v && dd.v > 0.0 { dd } else { Ap::exact(0.0) };
				let p = self.pdi.next(pdm);
				let m = self.mdi.next(mdm);
				if z == Tri::Maybe || self.forked {
					// the implementation may also have taken the `true_range == 0` branch, which does not advance its
					// averages: from here on the reference cannot know the implementation's state
					self.forked = true;
					(Ap::undefined(), Ap::undefined())
				} else {
					(p / atr, m / atr)
				}
			}
		};
		let s = plus + minus;
		// with averaging kinds that can overshoot (DEMA, TEMA, HMA, LinReg) the DIs may become negative and the
		// ratio is not confined to [0,1]; otherwise an ambiguous step is enclosed by [0,1]
		// an ambiguous denominator makes the ratio undefined within the allowance: a residue of either sign in the
		// implementation's running sums is "within rounding" for the value oracle (the range monitor C12 judges it)
		let amb = Ap::undefined();
		let _ = self.overshoot;
		let t = match s.is_zero() {
			Tri::Yes => Ap::exact(0.0),
			Tri::No => (plus - minus).abs() / s,
			Tri::Maybe => amb,
		};
		let adx = self.adx.next(if plus.is_undefined() { amb } else { t });
		let dir = Sig::from_tri(plus.gt(minus), plus.lt(minus));
		let s0 = match (adx.gtf(self.zone), dir.clone()) {
			(Tri::No, _) => Sig::Full(0),
			(Tri::Yes, d) => d,
			(Tri::Maybe, Sig::Full(0)) => Sig::Full(0),
			_ => Sig::Exempt,
		};
		let s1 = if plus.is_undefined() { Sig::Exempt } else { Sig::Ratio(plus - minus) };
		(vec![adx, plus, minus], vec![s0, s1])
	}
}

struct Awesome {
	source: Source,
	ma1: MaRef,
	ma2: MaRef,
	rev: RevRef,
	cross: CrossRef,
	peaks: i64,
	high: Option<i64>,
	low: Option<i64>,
}
impl RefI for Awesome {
	fn next(&mut self, c: &Candle, _got: &[f64]) -> (Vec<Ap>, Vec<Sig>) {
		let s = src(c, self.source);
		let value = self.ma2.next(s) - self.ma1.next(s);
		let (up, lo) = self.rev.next(value);
		// ReversalSignal = lower - upper: when both halves fire on one step (possible only for position 0, where the seed can be
		// the maximum and the first value the minimum) they cancel and nothing is counted
		let (up, lo) = match (up, lo) {
			(Tri::Yes, Tri::Yes) => (Tri::No, Tri::No),
			(Tri::Yes, Tri::Maybe) | (Tri::Maybe, Tri::Yes) => (Tri::Maybe, Tri::Maybe),
			x => x,
		};
		// r > 0 at a trough (lower fires), r < 0 at a peak
		let r = Sig::from_tri(lo, up);
		let bump = |cnt: &mut Option<i64>, t: Tri| match t {
			Tri::Yes => *cnt = cnt.map(|x| (x + 1).min(255)),
			Tri::No => {}
			Tri::Maybe => *cnt = None,
		};
		bump(&mut self.high, lo);
		bump(&mut self.low, up);
		let s0 = match r {
			Sig::Full(0) => Sig::Full(0),
			Sig::Full(x) if x < 0 => match self.low {
				Some(n) => Sig::Full((n >= self.peaks) as i8),
				None => Sig::Exempt,
			},
			Sig::Full(_) => match self.high {
				Some(n) => Sig::Full(-((n >= self.peaks) as i8)),
				None => Sig::Exempt,
			},
			_ => Sig::Exempt,
		};
		let s1 = self.cross.cross(value, Ap::exact(0.0));
		// reset the counters after the signals: high *= (value >= 0), low *= (value <= 0)
		match value.gef(0.0) {
			Tri::No => self.high = Some(0),
			Tri::Yes => {}
			Tri::Maybe => {
				if self.high != Some(0) {
					self.high = None
				}
			}
		}
		match value.lef(0.0) {
			Tri::No => self.low = Some(0),
			Tri::Yes => {}
			Tri::Maybe => {
				if self.low != Some(0) {
					self.low = None
				}
			}
		}
		(vec![value], vec![s0, s1])
	}
}

struct Bollinger {
	source: Source,
	sigma: f64,
	ma: MaRef,
	sd: Box<dyn RefM>,
}
impl RefI for Bollinger {
	fn next(&mut self, c: &Candle, _got: &[f64]) -> (Vec<Ap>, Vec<Sig>) {
		let s = src(c, self.source);
		let mid = self.ma.next(s);
		let sd = self.sd.next_f(s.v, f64::NAN);
		let band = sd * self.sigma;
		let upper = mid + band;
		let lower = mid - band;
		let range = upper - lower;
		let rel = guarded_div(s - lower, range, 0.5, None);
		let s0 = if rel.is_undefined() { Sig::Exempt } else { Sig::Ratio(rel * 2.0 - 1.0) };
		(vec![upper, mid, lower], vec![s0])
	}
}

struct Cmf {
	adi: Box<dyn RefM>,
	vol: WinSum,
	cross: CrossRef,
}
impl RefI for Cmf {
	fn next(&mut self, c: &Candle, _got: &[f64]) -> (Vec<Ap>, Vec<Sig>) {
		let adi = self.adi.next(&In::C(*c), f64::NAN);
		let vs = self.vol.next(ex(c.volume));
		let value = adi / vs;
		let s0 = self.cross.cross(value, Ap::exact(0.0));
		(vec![value], vec![s0])
	}
}

struct ChaikinOsc {
	adi: Box<dyn RefM>,
	ma1: MaRef,
	ma2: MaRef,
	cross: CrossRef,
}
impl RefI for ChaikinOsc {
	fn next(&mut self, c: &Candle, _got: &[f64]) -> (Vec<Ap>, Vec<Sig>) {
		let a = self.adi.next(&In::C(*c), f64::NAN);
		let v = self.ma1.next(a) - self.ma2.next(a);
		let s0 = self.cross.cross(v, Ap::exact(0.0));
		(vec![v], vec![s0])
	}
}

struct ChandeKroll {
	x: f64,
	source: Source,
	prev_close: f64,
	atr: MaRef,
	h1: Extremum,
	l1: Extremum,
	h2: Extremum,
	l2: Extremum,
	prev_short: Ap,
	prev_long: Ap,
	ca: CrossRef,
}
impl RefI for ChandeKroll {
	fn next(&mut self, c: &Candle, _got: &[f64]) -> (Vec<Ap>, Vec<Sig>) {
		let t = tr(c, self.prev_close);
		self.prev_close = c.close as f64;
		let atr = self.atr.next(t);
		let phs = self.h1.next(ex(c.high)) - atr * self.x;
		let pls = self.l1.next(ex(c.low)) + atr * self.x;
		let short = self.h2.next(phs);
		let long = self.l2.next(pls);
		let s = src(c, self.source);
		let mid = (short + long) * 0.5;
		let size = mid - long;
		let value = guarded_div(s - mid, size, 0.0, None);
		let s0 = if value.is_undefined() { Sig::Exempt } else { Sig::Ratio(value) };
		let diff = (short - self.prev_short) + (long - self.prev_long);
		let is_s2 = short.lt(long);
		let cross = self.ca.above(long, short);
		self.prev_short = short;
		self.prev_long = long;
		let s1 = match cross.and(is_s2) {
			Tri::No => Sig::Full(0),
			Tri::Maybe => Sig::Exempt,
			Tri::Yes => {
				let (neg, _zero, pos) = diff.signs();
				match (neg, pos) {
					(false, true) if diff.lo() > 0.0 => Sig::Full(1),
					(true, false) if diff.hi() < 0.0 => Sig::Full(-1),
					(false, false) => Sig::Full(0),
					_ => Sig::Exempt,
				}
			}
		};
		(vec![long, s, short], vec![s0, s1])
	}
}

struct Cmo {
	source: Source,
	zone: f64,
	prev: f64,
	pos: WinSum,
	neg: WinSum,
	cu: CrossRef,
	ca: CrossRef,
}
impl RefI for Cmo {
	fn next(&mut self, c: &Candle, _got: &[f64]) -> (Vec<Ap>, Vec<Sig>) {
		let s = c.source(self.source);
		let ch = (s - self.prev as V) as f64;
		self.prev = s as f64;
		let p = self.pos.next(Ap::exact(ch.max(0.0)));
		let n = self.neg.next(Ap::exact((-ch).max(0.0)));
		let value = match (p.is_zero(), n.is_zero()) {
			(Tri::Yes, Tri::Yes) => Ap::exact(0.0),
			_ => {
				let sum = p + n;
				match sum.is_zero() {
					Tri::No if sum.lo() > 0.0 => ((p - n) / sum),
					_ => Ap::undefined(),
				}
			}
		};
		let under = self.cu.under(value, Ap::exact(-self.zone));
		let above = self.ca.above(value, Ap::exact(self.zone));
		(vec![value], vec![Sig::from_tri(under, above)])
	}
}

struct Cci {
	source: Source,
	zone: f64,
	cci: Box<dyn RefM>,
	last: Ap,
	last_signal: Option<i8>,
}
impl RefI for Cci {
	fn next(&mut self, c: &Candle, _got: &[f64]) -> (Vec<Ap>, Vec<Sig>) {
		let s = src(c, self.source);
		let v = self.cci.next_f(s.v, f64::NAN) * (1.0 / 1.5);
		let z = self.zone;
		let down = v.ltf(-z).and(self.last.gef(-z));
		let up = v.gtf(z).and(self.last.lef(z));
		self.last = v;
		let t = Sig::from_tri(down, up);
		let s0 = match (t, self.last_signal) {
			(Sig::Full(0), _) => Sig::Full(0),
			(Sig::Full(x), Some(l)) => Sig::Full(if l != x { x } else { 0 }),
			_ => Sig::Exempt,
		};
		self.last_signal = match &s0 {
			Sig::Full(x) => Some(*x),
			_ => None,
		};
		(vec![v], vec![s0])
	}
}

/// rate of change (x_t - x_{t-n}) / x_{t-n} over approximate values
struct Roc {
	d: Delay,
}
impl Roc {
	fn new(n: usize, init: Ap) -> Self {
		Self { d: Delay::new(n, init) }
	}
	fn next(&mut self, x: Ap) -> Ap {
		let past = self.d.next(x);
		(x - past) / past
	}
}

struct Coppock {
	source: Source,
	r1: Roc,
	r2: Roc,
	ma1: MaRef,
	ma2: MaRef,
	c1: CrossRef,
	rev: RevRef,
	c2: CrossRef,
}
impl RefI for Coppock {
	fn next(&mut self, c: &Candle, _got: &[f64]) -> (Vec<Ap>, Vec<Sig>) {
		let s = src(c, self.source);
		let v1 = self.ma1.next(self.r1.next(s) + self.r2.next(s));
		let v2 = self.ma2.next(v1);
		let s0 = self.c1.cross(v1, Ap::exact(0.0));
		let s1 = self.rev.signal(v1);
		let s2 = self.c2.cross(v1, v2);
		(vec![v1, v2], vec![s0, s1, s2])
	}
}

struct Dpo {
	source: Source,
	ma: MaRef,
	past: Delay,
}
impl RefI for Dpo {
	fn next(&mut self, c: &Candle, _got: &[f64]) -> (Vec<Ap>, Vec<Sig>) {
		let s = src(c, self.source);
		let m = self.ma.next(s);
		let p = self.past.next(s);
		(vec![p - m], vec![])
	}
}

struct Donchian {
	h: Extremum,
	l: Extremum,
}
impl RefI for Donchian {
	fn next(&mut self, c: &Candle, _got: &[f64]) -> (Vec<Ap>, Vec<Sig>) {
		let h = self.h.next(ex(c.high));
		let l = self.l.next(ex(c.low));
		let mid = Ap::rounded((h.v + l.v) * 0.5, 1.0);
		let s0 = Sig::from_tri(ex(c.high).ge(h), ex(c.low).le(l));
		(vec![l, mid, h], vec![s0])
	}
}


// ---------------------------------------------------------------------------------------------
// batch 2

struct Eom {
	ph: Delay,
	pl: Delay,
	ma: MaRef,
	cross: CrossRef,
}
impl RefI for Eom {
	fn next(&mut self, c: &Candle, _got: &[f64]) -> (Vec<Ap>, Vec<Sig>) {
		let ph = self.ph.next(ex(c.high));
		let pl = self.pl.next(ex(c.low));
		let d = ((ex(c.high) - ph) + (ex(c.low) - pl)) * 0.5;
		let v = if c.volume == 0.0 { Ap::exact(0.0) } else { d * (ex(c.high) - ex(c.low)) / ex(c.volume) };
		let value = self.ma.next(v);
		let s0 = self.cross.cross(value, Ap::exact(0.0));
		(vec![value], vec![s0])
	}
}

struct Efi {
	source: Source,
	past: Delay,
	vol: WinSum,
	ma: MaRef,
	cross: CrossRef,
}
impl RefI for Efi {
	fn next(&mut self, c: &Candle, _got: &[f64]) -> (Vec<Ap>, Vec<Sig>) {
		let s = src(c, self.source);
		let p = self.past.next(s);
		let vs = self.vol.next(ex(c.volume));
		let r = (s - p) * vs;
		let value = self.ma.next(r);
		let s0 = self.cross.cross(value, Ap::exact(0.0));
		(vec![value], vec![s0])
	}
}

struct Envelopes {
	source: Source,
	source2: Source,
	k: f64,
	ma: MaRef,
}
impl RefI for Envelopes {
	fn next(&mut self, c: &Candle, _got: &[f64]) -> (Vec<Ap>, Vec<Sig>) {
		let v = self.ma.next(src(c, self.source));
		let kh = Ap::rounded(1.0 + self.k, 1.0);
		let kl = Ap::rounded(1.0 - self.k, 1.0);
		let (up, lo) = (v * kh, v * kl);
		let s2 = src(c, self.source2);
		(vec![up, lo, s2], vec![Sig::from_tri(s2.lt(lo), s2.gt(up))])
	}
}

struct Fisher {
	source: Source,
	zone: f64,
	h: Extremum,
	l: Extremum,
	prev: Ap,
	cross: CrossRef,
	ma: MaRef,
	cross_ma: CrossRef,
	last_rev: Option<i8>,
}
impl RefI for Fisher {
	fn next(&mut self, c: &Candle, got: &[f64]) -> (Vec<Ap>, Vec<Sig>) {
		let s = src(c, self.source);
		let h = self.h.next(s);
		let l = self.l.next(s);
		let ft = if h.v == l.v {
			Ap::exact(0.0)
		} else {
			// the bound is the ValueType constant 0.999
			let bound = (0.999 as V) as f64;
			let x = ((s - l) / (h - l) * 2.0 - 1.0).clamp(-bound, bound);
			// atanh is evaluated through 1 - x and 1 + x: near the bound its rounding acts like a perturbation of x by a few eps
			let xin = Ap::new(x.v, x.e + 4.0 * EPS);
			let (lo, hi) = (xin.lo().max(-0.9999999), xin.hi().min(0.9999999));
			Ap::from_interval(lo.atanh(), hi.atanh()).widen(8.0 * EPS * x.v.atanh().abs())
		};
		if self.prev.is_undefined() {
			self.prev = Ap::rounded(f64::NAN, 1.0);
		}
		let cum = self.prev * 0.5 + ft;
		let rev = self.cross.cross(cum, self.prev);
		let active = |x: Ap, r: Tri| -> Tri { x.ltf(0.0).and(r).or(Tri::No) };
		let _ = active;
		let (rev_up, rev_dn) = match rev {
			Sig::Full(1) => (Tri::Yes, Tri::No),
			Sig::Full(-1) => (Tri::No, Tri::Yes),
			Sig::Full(_) => (Tri::No, Tri::No),
			_ => (Tri::Maybe, Tri::Maybe),
		};
		let flag1 = cum.ltf(0.0).and(rev_up).or(cum.gtf(0.0).and(rev_dn));
		let s0 = match flag1 {
			Tri::Yes => Sig::Ratio(cum / self.zone),
			Tri::No => Sig::Ratio(Ap::exact(0.0)),
			Tri::Maybe => Sig::Exempt,
		};
		let line = self.ma.next(cum);
		let crossed = self.cross_ma.cross(cum, line);
		// last_reverse latch
		match rev {
			Sig::Full(0) => {}
			Sig::Full(x) => self.last_rev = Some(x),
			_ => self.last_rev = None,
		}
		let (c_up, c_dn) = match crossed {
			Sig::Full(1) => (Tri::Yes, Tri::No),
			Sig::Full(-1) => (Tri::No, Tri::Yes),
			Sig::Full(_) => (Tri::No, Tri::No),
			_ => (Tri::Maybe, Tri::Maybe),
		};
		let (lr_pos, lr_neg) = match self.last_rev {
			Some(x) => (Tri::from(x > 0), Tri::from(x < 0)),
			None => (Tri::Maybe, Tri::Maybe),
		};
		let flag2 = line.ltf(0.0).and(lr_pos).and(c_up).or(line.gtf(0.0).and(lr_neg).and(c_dn));
		let s1 = match flag2 {
			Tri::Yes => Sig::Ratio(line / self.zone),
			Tri::No => Sig::Ratio(Ap::exact(0.0)),
			Tri::Maybe => Sig::Exempt,
		};
		self.prev = cum;
		let _ = got;
		(vec![cum, line], vec![s0, s1])
	}
}

struct HullMa {
	source: Source,
	hma: MaRef,
	rev: RevRef,
}
impl RefI for HullMa {
	fn next(&mut self, c: &Candle, _got: &[f64]) -> (Vec<Ap>, Vec<Sig>) {
		let v = self.hma.next(src(c, self.source));
		let s0 = self.rev.signal(v);
		(vec![v], vec![s0])
	}
}

struct Ichimoku {
	source: Source,
	h: [Extremum; 3],
	l: [Extremum; 3],
	w1: Delay,
	w2: Delay,
	c1: CrossRef,
	c2: CrossRef,
}
impl RefI for Ichimoku {
	fn next(&mut self, c: &Candle, _got: &[f64]) -> (Vec<Ap>, Vec<Sig>) {
		let s = src(c, self.source);
		let hi: Vec<Ap> = self.h.iter_mut().map(|e| e.next(ex(c.high))).collect();
		let lo: Vec<Ap> = self.l.iter_mut().map(|e| e.next(ex(c.low))).collect();
		let half = |a: Ap, b: Ap| Ap::rounded((a.v + b.v) * 0.5, 1.0);
		let tenkan = half(hi[0], lo[0]);
		let kijun = half(hi[1], lo[1]);
		let a = self.w1.next(Ap::rounded((tenkan.v + kijun.v) * 0.5, 2.0));
		let b = self.w2.next(half(hi[2], lo[2]));
		let x1 = self.c1.cross(tenkan, kijun);
		let x2 = self.c2.cross(s, kijun);
		let green = a.gt(b);
		let red = a.lt(b);
		let up_cond = s.gt(a).and(s.gt(b)).and(green);
		let dn_cond = s.lt(a).and(s.lt(b)).and(red);
		let mk = |x: &Sig| -> Sig {
			let (xu, xd) = match x {
				Sig::Full(1) => (Tri::Yes, Tri::No),
				Sig::Full(-1) => (Tri::No, Tri::Yes),
				Sig::Full(_) => (Tri::No, Tri::No),
				_ => (Tri::Maybe, Tri::Maybe),
			};
			Sig::from_tri(up_cond.and(xu), dn_cond.and(xd))
		};
		(vec![tenkan, kijun, a, b], vec![mk(&x1), mk(&x2)])
	}
}

struct Kaufman {
	source: Source,
	fast: f64,
	slow: f64,
	square: bool,
	filter_period: usize,
	k: f64,
	past: Delay,
	vol: Box<dyn RefM>,
	y: Ap,
	cross: CrossRef,
	sd: Option<Box<dyn RefM>>,
	/// latched crossing: None = unknown, Some(None) = nothing latched, Some(Some((sign, value)))
	latch: Option<Option<(i8, Ap)>>,
}
impl RefI for Kaufman {
	fn next(&mut self, c: &Candle, got: &[f64]) -> (Vec<Ap>, Vec<Sig>) {
		let s = src(c, self.source);
		let dir = (s - self.past.next(s)).abs();
		let vol = self.vol.next_f(s.v, f64::NAN);
		let er = match vol.is_zero() {
			Tri::Yes => Ap::exact(0.0),
			Tri::No => dir / vol,
			Tri::Maybe => Ap::undefined(),
		};
		let value = if er.is_undefined() || self.y.is_undefined() {
			Ap::undefined()
		} else {
			let sm = er * (self.fast - self.slow) + self.slow;
			let sm = if self.square { sm * sm } else { sm };
			// contraction y + s (x - y): evaluate at the corners of (s, y)
			let (slo, shi) = (sm.lo(), sm.hi());
			let (ylo, yhi) = (self.y.lo(), self.y.hi());
			let mut lo = f64::INFINITY;
			let mut hi = f64::NEG_INFINITY;
			for sv in [slo, shi] {
				for yv in [ylo, yhi] {
					let v = yv + sv * (s.v - yv);
					lo = lo.min(v);
					hi = hi.max(v);
				}
			}
			Ap::from_interval(lo, hi).widen(C * EPS * 4.0 * (s.v.abs() + ylo.abs().max(yhi.abs())))
		};
		// the value is the recursion's own state: re-synchronise on the implementation's output after an undefined step
		self.y = if value.is_undefined() { got.first().map_or(Ap::undefined(), |g| Ap::rounded(*g, 2.0)) } else { value };
		let x = self.cross.cross(s, if value.is_undefined() { self.y } else { value });
		let s0 = if self.filter_period <= 1 {
			if value.is_undefined() {
				Sig::Exempt
			} else {
				x
			}
		} else {
			// the deviation filter watches the indicator's own output: feed the reference deviation with the implementation's value
			// (it is inside the reference interval, or value0 is reported anyway). Feeding the interval's midpoint instead polluted
			// the filter window for `filter_period` steps after a regime change, during which the value interval is very wide.
			let fed = got.first().copied().filter(|g| g.is_finite()).unwrap_or(if value.is_undefined() { self.y.v } else { value.v });
			let sd = self.sd.as_mut().unwrap().next_f(fed, f64::NAN);
			let filter = if value.is_undefined() { Ap::undefined() } else { sd.widen(value.e * 2.0) * self.k };
			match x {
				Sig::Full(0) => match self.latch.clone() {
					Some(None) => Sig::Full(0),
					Some(Some((sg, lv))) => {
						let fire = if filter.is_undefined() { Tri::Maybe } else { (value - lv).abs().gt(filter) };
						match fire {
							Tri::Yes => {
								self.latch = Some(None);
								Sig::Full(sg)
							}
							Tri::No => Sig::Full(0),
							Tri::Maybe => {
								self.latch = None;
								Sig::Exempt
							}
						}
					}
					None => Sig::Exempt,
				},
				Sig::Full(sg) => {
					self.latch = if value.is_undefined() { None } else { Some(Some((sg, value))) };
					Sig::Full(0)
				}
				_ => {
					self.latch = None;
					Sig::Exempt
				}
			}
		};
		(vec![value], vec![s0])
	}
}

struct Keltner {
	doc_s: Sig,
	doc_v: Ap,
	source: Source,
	sigma: f64,
	prev_close: f64,
	ma: MaRef,
	atr: MaRef,
	ca: CrossRef,
	cu: CrossRef,
}
impl RefI for Keltner {
	fn next(&mut self, c: &Candle, _got: &[f64]) -> (Vec<Ap>, Vec<Sig>) {
		let s = src(c, self.source);
		let t = tr(c, self.prev_close);
		self.prev_close = c.close as f64;
		let mid = self.ma.next(s);
		let atr = self.atr.next(t);
		let upper = mid + atr * self.sigma;
		let lower = mid - atr * self.sigma;
		// the implementation's actual order and polarity (doc: upper, source, lower; buy above the upper bound)
		let under = self.cu.under(s, lower);
		let above = self.ca.above(s, upper);
		// doc: first value is the upper bound; above the upper bound => buy, under the lower bound => sell
		self.doc_s = Sig::from_tri(above, under);
		self.doc_v = upper;
		(vec![s, upper, lower], vec![Sig::from_tri(under, above)])
	}
	fn doc_signals(&self) -> Vec<(&'static str, usize, Sig)> {
		vec![("polarity-opposite-to-doc", 0, self.doc_s.clone())]
	}
	fn doc_values(&self) -> Vec<(&'static str, usize, Ap)> {
		vec![("order-differs-from-doc(upper,source,lower)", 0, self.doc_v)]
	}
}

struct Klinger {
	last_tp: f64,
	ma1: MaRef,
	ma2: MaRef,
	ma3: MaRef,
	c1: CrossRef,
	c2: CrossRef,
}
impl RefI for Klinger {
	fn next(&mut self, c: &Candle, _got: &[f64]) -> (Vec<Ap>, Vec<Sig>) {
		let tp = c.tp();
		let d = tp - self.last_tp as V;
		self.last_tp = tp as f64;
		let sg = (d > 0.0) as i8 - (d < 0.0) as i8;
		let vol = Ap::exact((sg as V * c.volume) as f64);
		let ko = self.ma1.next(vol) - self.ma2.next(vol);
		let line = self.ma3.next(ko);
		let s0 = self.c1.cross(ko, Ap::exact(0.0));
		let s1 = self.c2.cross(ko, line);
		(vec![ko, line], vec![s0, s1])
	}
}

struct Kst {
	r: [Roc; 4],
	m: [MaRef; 4],
	sig: MaRef,
	cross: CrossRef,
}
impl RefI for Kst {
	fn next(&mut self, c: &Candle, _got: &[f64]) -> (Vec<Ap>, Vec<Sig>) {
		let cl = ex(c.close);
		let mut v = Vec::new();
		for i in 0..4 {
			let roc = self.r[i].next(cl);
			v.push(self.m[i].next(roc));
		}
		let kst = (v[1] * 2.0 + v[0]) + (v[2] * 3.0 + v[3] * 4.0);
		let line = self.sig.next(kst);
		let s0 = self.cross.cross(kst, line);
		(vec![kst, line], vec![s0])
	}
}

struct Macd {
	source: Source,
	ma1: MaRef,
	ma2: MaRef,
	ma3: MaRef,
	c1: CrossRef,
	c2: CrossRef,
}
impl RefI for Macd {
	fn next(&mut self, c: &Candle, _got: &[f64]) -> (Vec<Ap>, Vec<Sig>) {
		let s = src(c, self.source);
		let macd = self.ma1.next(s) - self.ma2.next(s);
		let line = self.ma3.next(macd);
		let s0 = self.c1.cross(macd, line);
		let s1 = self.c2.cross(macd, Ap::exact(0.0));
		(vec![macd, line], vec![s0, s1])
	}
}

struct MomentumIndex {
	source: Source,
	p1: Delay,
	p2: Delay,
}
impl RefI for MomentumIndex {
	fn next(&mut self, c: &Candle, _got: &[f64]) -> (Vec<Ap>, Vec<Sig>) {
		let s = src(c, self.source);
		let v = Ap::exact((s.v as V - self.p1.next(s).v as V) as f64);
		let w = Ap::exact((s.v as V - self.p2.next(s).v as V) as f64);
		let s0 = Sig::from_tri(v.gtf(0.0).and(w.gtf(0.0)), v.ltf(0.0).and(w.ltf(0.0)));
		(vec![v, w], vec![s0])
	}
}

pub fn make_refi2(name: &str, cfg: &Value, first: &Candle) -> Option<Box<dyn RefI>> {
	let z = Ap::exact(0.0);
	Some(match name {
		"EaseOfMovement" => {
			let p2 = cfg_p(cfg, "period2");
			Box::new(Eom { ph: Delay::new(p2, ex(first.high)), pl: Delay::new(p2, ex(first.low)), ma: MaRef::from_cfg(cfg, "ma", z), cross: CrossRef::new(z) })
		}
		"EldersForceIndex" => {
			let p2 = cfg_p(cfg, "period2");
			let s = src(first, cfg_src(cfg, "source"));
			Box::new(Efi { source: cfg_src(cfg, "source"), past: Delay::new(p2, s), vol: WinSum::new(p2, ex(first.volume)), ma: MaRef::from_cfg(cfg, "ma", z), cross: CrossRef::default() })
		}
		"Envelopes" => {
			let s = src(first, cfg_src(cfg, "source"));
			Box::new(Envelopes { source: cfg_src(cfg, "source"), source2: cfg_src(cfg, "source2"), k: cfg_f(cfg, "k"), ma: MaRef::from_cfg(cfg, "ma", s) })
		}
		"FisherTransform" => {
			let s = src(first, cfg_src(cfg, "source"));
			let p = cfg_p(cfg, "period1");
			Box::new(Fisher { source: cfg_src(cfg, "source"), zone: cfg_f(cfg, "zone"), h: Extremum::new(p, s, true), l: Extremum::new(p, s, false), prev: z, cross: CrossRef::default(), ma: MaRef::from_cfg(cfg, "signal", z), cross_ma: CrossRef::default(), last_rev: Some(0) })
		}
		"HullMovingAverage" => {
			let s = src(first, cfg_src(cfg, "source"));
			// the detector is seeded with the average's own initial value (= the source up to an ulp)
			Box::new(HullMa { source: cfg_src(cfg, "source"), hma: MaRef::new("hma", cfg_p(cfg, "period"), s), rev: RevRef::new(cfg_p(cfg, "left"), cfg_p(cfg, "right"), Ap::rounded(s.v, 4.0)) })
		}
		"IchimokuCloud" => {
			let (l1, l2, l3, m) = (cfg_p(cfg, "l1"), cfg_p(cfg, "l2"), cfg_p(cfg, "l3"), cfg_p(cfg, "m"));
			let hl2 = ex(first.hl2());
			Box::new(Ichimoku {
				source: cfg_src(cfg, "source"),
				h: [Extremum::new(l1, ex(first.high), true), Extremum::new(l2, ex(first.high), true), Extremum::new(l3, ex(first.high), true)],
				l: [Extremum::new(l1, ex(first.low), false), Extremum::new(l2, ex(first.low), false), Extremum::new(l3, ex(first.low), false)],
				w1: Delay::new(m, hl2),
				w2: Delay::new(m, hl2),
				c1: CrossRef::default(),
				c2: CrossRef::default(),
			})
		}
		"Kaufman" => {
			let s = src(first, cfg_src(cfg, "source"));
			let p1 = cfg_p(cfg, "period1");
			let fp = cfg_p(cfg, "filter_period");
			Box::new(Kaufman {
				source: cfg_src(cfg, "source"),
				fast: 2.0 / (cfg_p(cfg, "period2") as f64 + 1.0),
				slow: 2.0 / (cfg_p(cfg, "period3") as f64 + 1.0),
				square: cfg_b(cfg, "square_smooth"),
				filter_period: fp,
				k: cfg_f(cfg, "k"),
				past: Delay::new(p1, s),
				vol: make_ref("LinearVolatility", &Par::L(p1 as P), &In::V(s.v as V))?,
				y: s,
				cross: CrossRef::default(),
				sd: if fp > 1 { make_ref("StDev", &Par::L(fp as P), &In::V(s.v as V)) } else { None },
				latch: Some(None),
			})
		}
		"KeltnerChannel" => {
			let s = src(first, cfg_src(cfg, "source"));
			let (_, p) = cfg_ma(cfg, "ma");
			Box::new(Keltner { doc_s: Sig::Exempt, doc_v: Ap::undefined(), source: cfg_src(cfg, "source"), sigma: cfg_f(cfg, "sigma"), prev_close: first.close as f64, ma: MaRef::from_cfg(cfg, "ma", s), atr: MaRef::new("sma", p, Ap::rounded(first.high as f64 - first.low as f64, 1.0)), ca: CrossRef::default(), cu: CrossRef::default() })
		}
		"KlingerVolumeOscillator" => Box::new(Klinger { last_tp: first.tp() as f64, ma1: MaRef::from_cfg(cfg, "ma1", z), ma2: MaRef::from_cfg(cfg, "ma2", z), ma3: MaRef::from_cfg(cfg, "signal", z), c1: CrossRef::default(), c2: CrossRef::default() }),
		"KnowSureThing" => {
			let cl = ex(first.close);
			Box::new(Kst {
				r: [Roc::new(cfg_p(cfg, "period1"), cl), Roc::new(cfg_p(cfg, "period2"), cl), Roc::new(cfg_p(cfg, "period3"), cl), Roc::new(cfg_p(cfg, "period4"), cl)],
				m: [MaRef::from_cfg(cfg, "ma1", z), MaRef::from_cfg(cfg, "ma2", z), MaRef::from_cfg(cfg, "ma3", z), MaRef::from_cfg(cfg, "ma4", z)],
				sig: MaRef::from_cfg(cfg, "signal", z),
				cross: CrossRef::default(),
			})
		}
		"MACD" => {
			let s = src(first, cfg_src(cfg, "source"));
			Box::new(Macd { source: cfg_src(cfg, "source"), ma1: MaRef::from_cfg(cfg, "ma1", s), ma2: MaRef::from_cfg(cfg, "ma2", s), ma3: MaRef::from_cfg(cfg, "signal", z), c1: CrossRef::default(), c2: CrossRef::default() })
		}
		"MomentumIndex" => {
			let s = src(first, cfg_src(cfg, "source"));
			Box::new(MomentumIndex { source: cfg_src(cfg, "source"), p1: Delay::new(cfg_p(cfg, "period1"), s), p2: Delay::new(cfg_p(cfg, "period2"), s) })
		}
		_ => return None,
	})
}

// ---------------------------------------------------------------------------------------------
// batch 3

struct Mfi {
	doc_v: Ap,
	zone: f64,
	tps: Vec<(f64, f64)>, // (tp, volume) history incl. the initial candle first
	period: usize,
	cu: CrossRef,
	cl: CrossRef,
	mag: f64,
	t: f64,
}
impl RefI for Mfi {
	fn next(&mut self, c: &Candle, _got: &[f64]) -> (Vec<Ap>, Vec<Sig>) {
		self.tps.push((c.tp() as f64, c.volume as f64));
		self.t += 1.0;
		self.mag = self.mag.max(c.volume as f64);
		let n = self.tps.len();
		// flows of the last `period` candles, each against its predecessor (the initial candle is its own predecessor)
		let mut pos = crate::ap::KSum::new();
		let mut neg = crate::ap::KSum::new();
		let (mut dpos, mut dneg) = (0.0f64, 0.0f64);
		for i in (n.saturating_sub(self.period)).max(1)..n {
			let (tp, v) = self.tps[i];
			let ptp = self.tps[i - 1].0;
			if tp > ptp {
				pos.add(v);
				dpos += tp * v;
			} else if tp < ptp {
				neg.add(v);
				dneg += tp * v;
			}
		}
		// doc (linked definition): money flow = typical price x volume
		self.doc_v = if dneg > 0.0 && dpos > 0.0 { Ap::new(1.0 - 1.0 / (1.0 + dpos / dneg), 1e-9) } else { Ap::undefined() };
		if self.tps.len() > 4 * self.period + 64 {
			let cut = self.tps.len() - self.period - 2;
			self.tps.drain(..cut);
		}
		let e = crate::errm::radius(crate::reg::Class::Accum, self.period as f64, self.t, self.period as f64 * self.mag, 4.0);
		let (pmf, nmf) = (Ap::new(pos.get(), e), Ap::new(neg.get(), e));
		// code: money flow ratio = 1 when the negative flow is exactly zero
		let value = match nmf.is_zero() {
			Tri::No if nmf.lo() > 0.0 => {
				let mfr = pmf / nmf;
				Ap::ONE - Ap::ONE / (Ap::ONE + mfr)
			}
			_ if neg.get() == 0.0 && pos.get() == 0.0 && self.mag == 0.0 => Ap::exact(0.5),
			_ => Ap::undefined(),
		};
		let upper = Ap::rounded(1.0 - self.zone, 1.0);
		let lower = Ap::exact(self.zone);
		let xu = self.cu.cross(value, upper);
		let xl = self.cl.cross(value, lower);
		let t = |s: &Sig, want: i8| match s {
			Sig::Full(x) => Tri::from(*x == want),
			_ => Tri::Maybe,
		};
		let enters = Sig::from_tri(t(&xl, -1), t(&xu, 1));
		let leaves = Sig::from_tri(t(&xl, 1), t(&xu, -1));
		(vec![upper, value, lower], vec![enters, leaves])
	}
	fn doc_values(&self) -> Vec<(&'static str, usize, Ap)> {
		vec![("money-flow-ignores-typical-price(uses-plain-volume)", 1, self.doc_v)]
	}
}

struct Sar {
	step: f64,
	max: f64,
	trend: i8,
	inc: u64,
	low: f64,
	high: f64,
	sar: Ap,
	prev_hl: (f64, f64),
	prev_trend: i8,
	forked: bool,
}
impl RefI for Sar {
	fn next(&mut self, c: &Candle, got: &[f64]) -> (Vec<Ap>, Vec<Sig>) {
		let (h, l) = (c.high as f64, c.low as f64);
		if self.forked {
			return (vec![Ap::undefined(), Ap::undefined()], vec![Sig::Exempt]);
		}
		if self.trend > 0 {
			if self.high < h {
				self.high = h;
				self.inc += 1;
			}
			match Ap::exact(l).lt(self.sar) {
				Tri::Yes => {
					self.trend = -1;
					self.low = l;
					self.inc = 1;
					self.sar = Ap::exact(self.high);
				}
				Tri::No => {}
				Tri::Maybe => self.forked = true,
			}
		} else {
			if self.low > l {
				self.low = l;
				self.inc += 1;
			}
			match Ap::exact(h).gt(self.sar) {
				Tri::Yes => {
					self.trend = 1;
					self.high = h;
					self.inc = 1;
					self.sar = Ap::exact(self.low);
				}
				Tri::No => {}
				Tri::Maybe => self.forked = true,
			}
		}
		if self.forked {
			let _ = got;
			return (vec![Ap::undefined(), Ap::undefined()], vec![Sig::Exempt]);
		}
		let trend = self.trend;
		let sar = self.sar;
		let af = Ap::rounded(self.max.min(((self.step as V) * (self.inc as V)) as f64), 0.0);
		if trend > 0 {
			let nx = sar + af * (Ap::exact(self.high) - sar);
			self.sar = nx.min(Ap::exact(l)).min(Ap::exact(self.prev_hl.1));
		} else {
			let nx = sar + af * (Ap::exact(self.low) - sar);
			self.sar = nx.max(Ap::exact(h)).max(Ap::exact(self.prev_hl.0));
		}
		self.prev_hl = (h, l);
		let sig = if self.prev_trend != trend { trend } else { 0 };
		self.prev_trend = trend;
		(vec![sar, Ap::exact(trend as f64)], vec![Sig::Full(sig)])
	}
}

struct PivotRev {
	doc_s: Sig,
	right: usize,
	up: RevRef,
	lo: RevRef,
	past_h: Delay,
	past_l: Delay,
	hprice: f64,
	lprice: f64,
}
impl RefI for PivotRev {
	fn next(&mut self, c: &Candle, _got: &[f64]) -> (Vec<Ap>, Vec<Sig>) {
		let ph = self.past_h.next(ex(c.high)).v;
		let pl = self.past_l.next(ex(c.low)).v;
		let (swh, _) = self.up.next(ex(c.high));
		let (_, swl) = self.lo.next(ex(c.low));
		// exact inputs: the detectors are decidable
		let swh = swh == Tri::Yes;
		let swl = swl == Tri::Yes;
		if swh {
			self.hprice = ph;
		}
		let le = swh || (c.high as f64) <= self.hprice;
		if swl {
			self.lprice = pl;
		}
		let se = swl || (c.low as f64) >= self.lprice;
		// doc: low pivot => buy, high pivot => sell, otherwise nothing
		self.doc_s = Sig::Full(swl as i8 - swh as i8);
		(vec![], vec![Sig::Full(se as i8 - le as i8)])
	}
	fn doc_signals(&self) -> Vec<(&'static str, usize, Sig)> {
		vec![("level-condition-instead-of-documented-pivot-events", 0, self.doc_s.clone())]
	}
}

struct PriceChannel {
	sigma: f64,
	h: Extremum,
	l: Extremum,
}
impl RefI for PriceChannel {
	fn next(&mut self, c: &Candle, _got: &[f64]) -> (Vec<Ap>, Vec<Sig>) {
		let h = self.h.next(ex(c.high));
		let l = self.l.next(ex(c.low));
		let mid = Ap::rounded((h.v + l.v) * 0.5, 1.0);
		let delta = h - mid;
		let upper = mid + delta * self.sigma;
		let lower = mid - delta * self.sigma;
		let s0 = Sig::from_tri(ex(c.high).ge(upper), ex(c.low).le(lower));
		(vec![upper, lower], vec![s0])
	}
}

struct Rsi {
	source: Source,
	zone: f64,
	prev: f64,
	pos: MaRef,
	neg: MaRef,
	cu: CrossRef,
	cl: CrossRef,
}
impl RefI for Rsi {
	fn next(&mut self, c: &Candle, _got: &[f64]) -> (Vec<Ap>, Vec<Sig>) {
		let s = c.source(self.source);
		let ch = (s - self.prev as V) as f64;
		self.prev = s as f64;
		let pos = self.pos.next(Ap::exact(ch.max(0.0)));
		let neg = -self.neg.next(Ap::exact(ch.min(0.0)));
		let sum = pos + neg;
		let value = match sum.gtf(0.0) {
			Tri::Yes => pos / sum,
			Tri::No => Ap::exact(0.5),
			Tri::Maybe => Ap::undefined(),
		};
		let xl = self.cl.cross(value, Ap::exact(self.zone));
		let xu = self.cu.cross(value, Ap::rounded(1.0 - self.zone, 1.0));
		let t = |s: &Sig, want: i8| match s {
			Sig::Full(x) => Tri::from(*x == want),
			_ => Tri::Maybe,
		};
		let s0 = Sig::from_tri(t(&xl, -1), t(&xu, 1));
		let s1 = Sig::from_tri(t(&xl, 1), t(&xu, -1));
		(vec![value], vec![s0, s1])
	}
}

struct Rvi {
	doc_s: Sig,
	zone: f64,
	prev_close: f64,
	swma1: MaRef,
	sma1: MaRef,
	swma2: MaRef,
	sma2: MaRef,
	ma: MaRef,
	cross: CrossRef,
}
impl RefI for Rvi {
	fn next(&mut self, c: &Candle, _got: &[f64]) -> (Vec<Ap>, Vec<Sig>) {
		let co = Ap::exact((c.close - self.prev_close as V) as f64);
		let hl = Ap::exact((c.high - c.low) as f64);
		self.prev_close = c.close as f64;
		let a = self.sma1.next(self.swma1.next(co));
		let b = self.sma2.next(self.swma2.next(hl));
		let rvi = match b.is_zero() {
			Tri::Yes => Ap::exact(0.0),
			Tri::No => a / b,
			Tri::Maybe => Ap::undefined(),
		};
		let sig = self.ma.next(rvi);
		let s1 = self.cross.cross(rvi, sig);
		let z = self.zone;
		let (up, dn) = match &s1 {
			Sig::Full(1) => (Tri::Yes, Tri::No),
			Sig::Full(-1) => (Tri::No, Tri::Yes),
			Sig::Full(_) => (Tri::No, Tri::No),
			_ => (Tri::Maybe, Tri::Maybe),
		};
		// code polarity: +1 when crossing downwards above the zone, -1 when crossing upwards below it
		let s2 = Sig::from_tri(dn.and(rvi.gtf(z)).and(sig.gtf(z)), up.and(rvi.ltf(-z)).and(sig.ltf(-z)));
		// doc: below -zone and crossing upwards => buy; above +zone and crossing downwards => sell
		self.doc_s = Sig::from_tri(up.and(rvi.ltf(-z)), dn.and(rvi.gtf(z)));
		(vec![rvi, sig], vec![s1, s2])
	}
	fn doc_signals(&self) -> Vec<(&'static str, usize, Sig)> {
		vec![("polarity-opposite-to-doc", 1, self.doc_s.clone())]
	}
}

struct Smi {
	source: Source,
	zone: f64,
	tsi: Box<dyn RefM>,
	ma: MaRef,
	cross: CrossRef,
}
impl RefI for Smi {
	fn next(&mut self, c: &Candle, _got: &[f64]) -> (Vec<Ap>, Vec<Sig>) {
		let s = src(c, self.source);
		let tsi = self.tsi.next_f(s.v, f64::NAN);
		let sig = self.ma.next(tsi);
		let x = self.cross.cross(tsi, sig);
		let (up, dn) = match &x {
			Sig::Full(1) => (Tri::Yes, Tri::No),
			Sig::Full(-1) => (Tri::No, Tri::Yes),
			Sig::Full(_) => (Tri::No, Tri::No),
			_ => (Tri::Maybe, Tri::Maybe),
		};
		let s0 = Sig::from_tri(up.and(sig.ltf(-self.zone)), dn.and(sig.gtf(self.zone)));
		(vec![tsi, sig, tsi - sig], vec![s0])
	}
}

struct Stoch {
	zone: f64,
	h: Extremum,
	l: Extremum,
	ma1: MaRef,
	ma2: MaRef,
	ca1: CrossRef,
	cu1: CrossRef,
	ca2: CrossRef,
	cu2: CrossRef,
	cross: CrossRef,
}
fn stoch_k(close: f64, h: f64, l: f64) -> Ap {
	if h == l {
		Ap::exact(0.5)
	} else {
		(Ap::exact(close) - Ap::exact(l)) / (Ap::exact(h) - Ap::exact(l))
	}
}
impl RefI for Stoch {
	fn next(&mut self, c: &Candle, _got: &[f64]) -> (Vec<Ap>, Vec<Sig>) {
		let h = self.h.next(ex(c.high));
		let l = self.l.next(ex(c.low));
		let k = stoch_k(c.close as f64, h.v, l.v);
		let f1 = self.ma1.next(k);
		let f2 = self.ma2.next(f1);
		let z = Ap::exact(self.zone);
		let uz = Ap::rounded(1.0 - self.zone, 1.0);
		let s0 = Sig::from_tri(self.ca1.above(f1, z), self.cu1.under(f1, uz));
		let s1 = Sig::from_tri(self.ca2.above(f2, z), self.cu2.under(f2, uz));
		let s2 = self.cross.cross(f1, f2);
		(vec![f1, f2], vec![s0, s1, s2])
	}
}

struct Trix {
	source: Source,
	tma: MaRef,
	prev: Ap,
	sig: MaRef,
	rev: RevRef,
	c1: CrossRef,
	c2: CrossRef,
}
impl RefI for Trix {
	fn next(&mut self, c: &Candle, _got: &[f64]) -> (Vec<Ap>, Vec<Sig>) {
		let t = self.tma.next(src(c, self.source));
		let value = t - self.prev;
		self.prev = t;
		let s0 = self.rev.signal(value);
		let line = self.sig.next(value);
		let s1 = self.c1.cross(value, line);
		let s2 = self.c2.cross(value, Ap::exact(0.0));
		(vec![value, line], vec![s0, s1, s2])
	}
}

struct TrendStrength {
	doc_s0: Sig,
	doc_s1: Sig,
	source: Source,
	zone: f64,
	offset: usize,
	n: usize,
	hist: Vec<f64>,
	init: f64,
	t: f64,
	mag: f64,
	cu: CrossRef,
	ca: CrossRef,
	rev: RevRef,
}
impl RefI for TrendStrength {
	fn next(&mut self, c: &Candle, _got: &[f64]) -> (Vec<Ap>, Vec<Sig>) {
		let s = c.source(self.source) as f64;
		self.hist.push(s);
		self.t += 1.0;
		self.mag = self.mag.max(s.abs());
		if self.hist.len() > 4 * self.n + 64 {
			let cut = self.hist.len() - self.n - 2;
			self.hist.drain(..cut);
		}
		let n = self.n;
		let len = self.hist.len();
		let at = |age: usize| if age < len { self.hist[len - 1 - age] } else { self.init };
		// Pearson correlation between time (newest = n, oldest = 1) and the last n source values
		let nf = n as f64;
		let mx = (nf + 1.0) / 2.0;
		let my = crate::ap::ksum((0..n).map(|a| at(a))) / nf;
		let sxy = crate::ap::ksum((0..n).map(|a| ((nf - a as f64) - mx) * (at(a) - my)));
		let sxx = nf * (nf * nf - 1.0) / 12.0;
		let syy = crate::ap::ksum((0..n).map(|a| (at(a) - my) * (at(a) - my)));
		// the implementation works with running sums of y and y^2 and a WMA: accumulator errors relative to the history magnitude
		let e_acc = crate::errm::radius(crate::reg::Class::Nested, nf, self.t, self.mag, 8.0);
		let num = Ap::new(sxy, e_acc * nf * nf);
		let den2 = Ap::new(sxx * syy, sxx * crate::errm::radius(crate::reg::Class::Accum, nf, self.t, 2.0 * nf * self.mag * self.mag, 8.0));
		// range of the ValueType: the implementation forms k * (sum y^2 - mean * sum y) with k ~ n^4/12; beyond the type's range
		// (f32: |y| ~ 1e15 with n > 100) that overflows although the correlation itself is in [-1,1] - outside the error model
		let overflow = sxx * nf * self.mag * self.mag > (V::MAX as f64) / 64.0;
		let value = if den2.lo() > 0.0 && !overflow { num / den2.sqrt() } else { Ap::undefined() };
		// code polarity and rule (doc differs, see DESIGN 5 #16)
		let under = self.cu.under(value, Ap::exact(self.zone));
		let above = self.ca.above(value, Ap::exact(-self.zone));
		let s0 = Sig::from_tri(under, above);
		let (up, lo) = self.rev.next_net(value);
		let past = at(self.offset);
		// reverse = lower - upper; r < 0 at a peak of the value, r > 0 at a trough; compared against the *source* window
		let upper_sig = up.and(Tri::from(past >= self.zone));
		let lower_sig = lo.and(Tri::from(past <= -self.zone));
		let s1 = Sig::from_tri(upper_sig, lower_sig);
		// doc #1: crossing the upper zone downwards => negative, crossing the lower zone upwards => positive
		self.doc_s0 = Sig::from_tri(above, under);
		// doc #2: value below the lower zone and turning upwards => positive; above the upper zone and turning downwards => negative
		self.doc_s1 = Sig::from_tri(lo.and(value.ltf(-self.zone)), up.and(value.gtf(self.zone)));
		(vec![value], vec![s0, s1])
	}
	fn doc_signals(&self) -> Vec<(&'static str, usize, Sig)> {
		vec![("polarity-opposite-to-doc", 0, self.doc_s0.clone()), ("reads-source-window-with-opposite-polarity-instead-of-documented-rule", 1, self.doc_s1.clone())]
	}
}

struct TrueStrength {
	source: Source,
	zone: f64,
	tsi: Box<dyn RefM>,
	ema: MaRef,
	cu: CrossRef,
	ca: CrossRef,
	c1: CrossRef,
	c2: CrossRef,
}
impl RefI for TrueStrength {
	fn next(&mut self, c: &Candle, _got: &[f64]) -> (Vec<Ap>, Vec<Sig>) {
		let s = src(c, self.source);
		let tsi = self.tsi.next_f(s.v, f64::NAN);
		let sig = self.ema.next(tsi);
		let s0 = Sig::from_tri(self.cu.under(tsi, Ap::exact(-self.zone)), self.ca.above(tsi, Ap::exact(self.zone)));
		let s1 = self.c1.cross(tsi, Ap::exact(0.0));
		let s2 = self.c2.cross(tsi, sig);
		(vec![tsi, sig], vec![s0, s1, s2])
	}
}

struct Woodies {
	doc_s: Sig,
	run: Option<i64>,
	source: Source,
	lag: i64,
	turbo: Box<dyn RefM>,
	trend: Box<dyn RefM>,
	cross: CrossRef,
	count: Option<i64>,
}
impl RefI for Woodies {
	fn next(&mut self, c: &Candle, _got: &[f64]) -> (Vec<Ap>, Vec<Sig>) {
		let s = src(c, self.source);
		let turbo = self.turbo.next_f(s.v, f64::NAN) * (1.0 / 1.5);
		let trend = self.trend.next_f(s.v, f64::NAN) * (1.0 / 1.5);
		let x = self.cross.cross(trend, Ap::exact(0.0));
		let s0 = match x {
			Sig::Full(0) => {
				// count += sign(trend)
				let (neg, _z, pos) = trend.signs();
				self.count = match (self.count, neg, pos) {
					(Some(n), false, true) if trend.lo() > 0.0 => Some(n + 1),
					(Some(n), true, false) if trend.hi() < 0.0 => Some(n - 1),
					(Some(n), false, false) => Some(n),
					_ => None,
				};
				Sig::Full(0)
			}
			Sig::Full(sg) => {
				self.count = Some(sg as i64);
				// code: |count| == lag at the step of the crossing itself
				Sig::Full(if self.lag == 1 { sg } else { 0 })
			}
			_ => {
				self.count = None;
				Sig::Exempt
			}
		};
		// doc: full signal when the trend CCI has stayed on one side of zero for exactly `s1_lag` bars
		let (neg, _z, pos) = trend.signs();
		self.run = match (self.run, neg, pos) {
			(Some(n), false, true) if trend.lo() > 0.0 => Some(if n > 0 { n + 1 } else { 1 }),
			(Some(n), true, false) if trend.hi() < 0.0 => Some(if n < 0 { n - 1 } else { -1 }),
			(Some(_), false, false) => Some(0),
			_ => None,
		};
		self.doc_s = match self.run {
			Some(n) if n.abs() == self.lag => Sig::Full(n.signum() as i8),
			Some(_) => Sig::Full(0),
			None => Sig::Exempt,
		};
		(vec![turbo, trend], vec![s0])
	}
	fn doc_signals(&self) -> Vec<(&'static str, usize, Sig)> {
		vec![("fires-only-at-the-crossing-so-never-for-s1_lag>1", 0, self.doc_s.clone())]
	}
}

pub fn make_refi3(name: &str, cfg: &Value, first: &Candle) -> Option<Box<dyn RefI>> {
	let z = Ap::exact(0.0);
	Some(match name {
		"MoneyFlowIndex" => Box::new(Mfi { doc_v: Ap::undefined(), zone: cfg_f(cfg, "zone"), tps: vec![(first.tp() as f64, first.volume as f64)], period: cfg_p(cfg, "period"), cu: CrossRef::default(), cl: CrossRef::default(), mag: 0.0, t: 0.0 }),
		"ParabolicSAR" => Box::new(Sar { step: cfg_f(cfg, "af_step"), max: cfg_f(cfg, "af_max"), trend: 1, inc: 1, low: first.low as f64, high: first.high as f64, sar: ex(first.low), prev_hl: (first.high as f64, first.low as f64), prev_trend: 0, forked: false }),
		"PivotReversalStrategy" => {
			let (l, r) = (cfg_p(cfg, "left"), cfg_p(cfg, "right"));
			Box::new(PivotRev { doc_s: Sig::Exempt, right: r, up: RevRef::new(l, r, ex(first.high)), lo: RevRef::new(l, r, ex(first.low)), past_h: Delay::new(r, ex(first.high)), past_l: Delay::new(r, ex(first.low)), hprice: 0.0, lprice: 0.0 })
		}
		"PriceChannelStrategy" => {
			let p = cfg_p(cfg, "period");
			Box::new(PriceChannel { sigma: cfg_f(cfg, "sigma"), h: Extremum::new(p, ex(first.high), true), l: Extremum::new(p, ex(first.low), false) })
		}
		"RelativeStrengthIndex" => {
			let zone = cfg_f(cfg, "zone");
			Box::new(Rsi { source: cfg_src(cfg, "source"), zone, prev: first.source(cfg_src(cfg, "source")) as f64, pos: MaRef::from_cfg(cfg, "ma", z), neg: MaRef::from_cfg(cfg, "ma", z), cu: CrossRef::new(Ap::rounded(0.5 - (1.0 - zone), 2.0)), cl: CrossRef::new(Ap::rounded(0.5 - zone, 1.0)) })
		}
		"RelativeVigorIndex" => {
			let (p1, p2) = (cfg_p(cfg, "period1"), cfg_p(cfg, "period2"));
			let hl = Ap::exact((first.high - first.low) as f64);
			Box::new(Rvi { doc_s: Sig::Exempt, zone: cfg_f(cfg, "zone"), prev_close: first.close as f64, swma1: MaRef::new("swma", p2, z), sma1: MaRef::new("sma", p1, z), swma2: MaRef::new("swma", p2, hl), sma2: MaRef::new("sma", p1, hl), ma: MaRef::from_cfg(cfg, "signal", z), cross: CrossRef::default() })
		}
		"SMIErgodicIndicator" => {
			let s = src(first, cfg_src(cfg, "source"));
			Box::new(Smi { source: cfg_src(cfg, "source"), zone: cfg_f(cfg, "zone"), tsi: make_ref("TSI", &Par::LL(cfg_p(cfg, "period2") as P, cfg_p(cfg, "period1") as P), &In::V(s.v as V))?, ma: MaRef::from_cfg(cfg, "signal", z), cross: CrossRef::default() })
		}
		"StochasticOscillator" => {
			let p = cfg_p(cfg, "period");
			let k0 = stoch_k(first.close as f64, first.high as f64, first.low as f64);
			Box::new(Stoch { zone: cfg_f(cfg, "zone"), h: Extremum::new(p, ex(first.high), true), l: Extremum::new(p, ex(first.low), false), ma1: MaRef::from_cfg(cfg, "ma", k0), ma2: MaRef::from_cfg(cfg, "signal", k0), ca1: CrossRef::default(), cu1: CrossRef::default(), ca2: CrossRef::default(), cu2: CrossRef::default(), cross: CrossRef::default() })
		}
		"Trix" => {
			let s = src(first, cfg_src(cfg, "source"));
			Box::new(Trix { source: cfg_src(cfg, "source"), tma: MaRef::new("tma", cfg_p(cfg, "period1"), s), prev: s, sig: MaRef::from_cfg(cfg, "signal", z), rev: RevRef::new(1, 1, z), c1: CrossRef::new(z), c2: CrossRef::new(z) })
		}
		"TrendStrengthIndex" => {
			let s = first.source(cfg_src(cfg, "source")) as f64;
			let zone = cfg_f(cfg, "zone");
			Box::new(TrendStrength { doc_s0: Sig::Exempt, doc_s1: Sig::Exempt, source: cfg_src(cfg, "source"), zone, offset: cfg_p(cfg, "reverse_offset"), n: cfg_p(cfg, "period"), hist: Vec::new(), init: s, t: 0.0, mag: s.abs(), cu: CrossRef::new(Ap::exact(0.0 - zone)), ca: CrossRef::new(Ap::exact(0.0 + zone)), rev: RevRef::new(1, 2, z) })
		}
		"TrueStrengthIndex" => {
			let s = src(first, cfg_src(cfg, "source"));
			Box::new(TrueStrength { source: cfg_src(cfg, "source"), zone: cfg_f(cfg, "zone"), tsi: make_ref("TSI", &Par::LL(cfg_p(cfg, "period2") as P, cfg_p(cfg, "period1") as P), &In::V(s.v as V))?, ema: MaRef::new("ema", cfg_p(cfg, "period3"), z), cu: CrossRef::default(), ca: CrossRef::default(), c1: CrossRef::default(), c2: CrossRef::default() })
		}
		"WoodiesCCI" => {
			let s = src(first, cfg_src(cfg, "source"));
			Box::new(Woodies { doc_s: Sig::Exempt, run: Some(0), source: cfg_src(cfg, "source"), lag: cfg_p(cfg, "s1_lag") as i64, turbo: make_ref("CCI", &Par::L(cfg_p(cfg, "period1") as P), &In::V(s.v as V))?, trend: make_ref("CCI", &Par::L(cfg_p(cfg, "period2") as P), &In::V(s.v as V))?, cross: CrossRef::default(), count: Some(0) })
		}
		_ => return None,
	})
}

pub fn make_refi(name: &str, cfg: &Value, first: &Candle) -> Option<Box<dyn RefI>> {
	if let Some(r) = make_refi2(name, cfg, first) {
		return Some(r);
	}
	if let Some(r) = make_refi3(name, cfg, first) {
		return Some(r);
	}
	let z = Ap::exact(0.0);
	Some(match name {
		"Aroon" => {
			let p = cfg_p(cfg, "period");
			Box::new(Aroon { period: p, zone: cfg_f(cfg, "signal_zone"), ozp: cfg_p(cfg, "over_zone_period") as f64, hi: ArgExt::new(p, first.high as f64), lo: ArgExt::new(p, first.low as f64), cross: CrossRef::default(), u: 0, d: 0 })
		}
		"AverageDirectionalIndex" => {
			let p1 = cfg_p(cfg, "period1");
			let tr0 = tr(first, first.close as f64);
			Box::new(Adx { forked: false, overshoot: matches!(cfg_ma(cfg, "method1").0.as_str(), "dema" | "tema" | "hma" | "lin_reg"), period1: p1, zone: cfg_f(cfg, "zone"), prev_close: first.close as f64, hl: Delay::new(p1, ex(first.high)), ll: Delay::new(p1, ex(first.low)), atr: MaRef::from_cfg(cfg, "method1", tr0), pdi: MaRef::from_cfg(cfg, "method1", z), mdi: MaRef::from_cfg(cfg, "method1", z), adx: MaRef::from_cfg(cfg, "method2", z) })
		}
		"AwesomeOscillator" => {
			let s = src(first, cfg_src(cfg, "source"));
			// the detector is seeded with the oscillator's own initial value: both averages are advanced by one copy of the first
			// source value at construction (zero only up to rounding), see the repair recorded for C08
			let mut ma1 = MaRef::from_cfg(cfg, "ma1", s);
			let mut ma2 = MaRef::from_cfg(cfg, "ma2", s);
			let seed = ma2.next(s) - ma1.next(s);
			Box::new(Awesome { source: cfg_src(cfg, "source"), ma1, ma2, rev: RevRef::new(cfg_p(cfg, "left"), cfg_p(cfg, "right"), seed), cross: CrossRef::default(), peaks: cfg_p(cfg, "conseq_peaks") as i64, high: Some(0), low: Some(0) })
		}
		"BollingerBands" => {
			let s = src(first, cfg_src(cfg, "source"));
			let n = cfg_p(cfg, "avg_size");
			Box::new(Bollinger { source: cfg_src(cfg, "source"), sigma: cfg_f(cfg, "sigma"), ma: MaRef::new("sma", n, s), sd: make_ref("StDev", &Par::L(n as P), &In::V(s.v as V))? })
		}
		"ChaikinMoneyFlow" => {
			let n = cfg_p(cfg, "size");
			Box::new(Cmf { adi: make_ref("ADI", &Par::L(n as P), &In::C(*first))?, vol: WinSum::new(n, ex(first.volume)), cross: CrossRef::default() })
		}
		"ChaikinOscillator" => {
			let w = cfg_p(cfg, "window");
			let mut adi = make_ref("ADI", &Par::L(w as P), &In::C(*first))?;
			// initial ADI value: window * clv * volume (0 when windowless)
			let init = if w == 0 { z } else { crate::refm::clv_ap(first) * Ap::exact(first.volume as f64) * (w as f64) };
			let _ = &mut adi;
			Box::new(ChaikinOsc { adi, ma1: MaRef::from_cfg(cfg, "ma1", init), ma2: MaRef::from_cfg(cfg, "ma2", init), cross: CrossRef::default() })
		}
		"ChandeKrollStop" => {
			let (_, p) = cfg_ma(cfg, "ma");
			let q = cfg_p(cfg, "q");
			let x = cfg_f(cfg, "x");
			let tr0 = Ap::rounded(first.high as f64 - first.low as f64, 1.0);
			let short0 = ex(first.high) - tr0 * x;
			let long0 = ex(first.low) + tr0 * x;
			Box::new(ChandeKroll { x, source: cfg_src(cfg, "source"), prev_close: first.close as f64, atr: MaRef::from_cfg(cfg, "ma", tr0), h1: Extremum::new(p, ex(first.high), true), l1: Extremum::new(p, ex(first.low), false), h2: Extremum::new(q, short0, true), l2: Extremum::new(q, long0, false), prev_short: short0, prev_long: long0, ca: CrossRef::new(long0 - short0) })
		}
		"ChandeMomentumOscillator" => {
			let n = cfg_p(cfg, "period");
			Box::new(Cmo { source: cfg_src(cfg, "source"), zone: cfg_f(cfg, "zone"), prev: first.source(cfg_src(cfg, "source")) as f64, pos: WinSum::new(n, z), neg: WinSum::new(n, z), cu: CrossRef::default(), ca: CrossRef::default() })
		}
		"CommodityChannelIndex" => {
			let s = src(first, cfg_src(cfg, "source"));
			Box::new(Cci { source: cfg_src(cfg, "source"), zone: cfg_f(cfg, "zone"), cci: make_ref("CCI", &Par::L(cfg_p(cfg, "period") as P), &In::V(s.v as V))?, last: z, last_signal: Some(0) })
		}
		"CoppockCurve" => {
			let s = src(first, cfg_src(cfg, "source"));
			Box::new(Coppock { source: cfg_src(cfg, "source"), r1: Roc::new(cfg_p(cfg, "period2"), s), r2: Roc::new(cfg_p(cfg, "period3"), s), ma1: MaRef::from_cfg(cfg, "ma1", z), ma2: MaRef::from_cfg(cfg, "s3_ma", z), c1: CrossRef::default(), rev: RevRef::new(cfg_p(cfg, "s2_left"), cfg_p(cfg, "s2_right"), z), c2: CrossRef::default() })
		}
		"DetrendedPriceOscillator" => {
			let s = src(first, cfg_src(cfg, "source"));
			let (_, p) = cfg_ma(cfg, "ma");
			Box::new(Dpo { source: cfg_src(cfg, "source"), ma: MaRef::from_cfg(cfg, "ma", s), past: Delay::new(p / 2 + 1, s) })
		}
		"DonchianChannel" => {
			let p = cfg_p(cfg, "period");
			Box::new(Donchian { h: Extremum::new(p, ex(first.high), true), l: Extremum::new(p, ex(first.low), false) })
		}
		_ => return None,
	})
}
