//! Reference models written from the documentation (DESIGN §3.1, Appendix A): naive, from scratch.
use crate::ap::{ksum, Ap, Tri, C, EPS};
use crate::V;

// ---------------------------------------------------------------------------------------------
// C14 reference detectors (exact)

/// previous difference; `None` = default() (0)
#[derive(Clone, Copy, Debug)]
pub struct RefCross {
	pub prev: V,
}
impl RefCross {
	pub fn new(v: V, b: V) -> Self {
		Self { prev: v - b }
	}
	pub fn default() -> Self {
		Self { prev: 0.0 }
	}
	/// returns (above, under)
	pub fn next(&mut self, v: V, b: V) -> (bool, bool) {
		let d = v - b;
		let p = self.prev;
		self.prev = d;
		(p < 0.0 && d >= 0.0, p > 0.0 && d <= 0.0)
	}
	/// Cross as -1/0/+1
	pub fn cross(&mut self, v: V, b: V) -> i8 {
		let (a, u) = self.next(v, b);
		a as i8 - u as i8
	}
}

/// Upper reversal at step i (0-based) of history xs[0..=i] (xs[0] is also the construction value)
pub fn upper_reversal(xs: &[f64], i: usize, left: usize, right: usize) -> bool {
	if i < right {
		return false;
	}
	let p = i - right;
	let lo = p.saturating_sub(left);
	let xp = xs[p];
	xs[lo..p].iter().all(|&x| x <= xp) && xs[p + 1..=i].iter().all(|&x| x < xp)
}
pub fn lower_reversal(xs: &[f64], i: usize, left: usize, right: usize) -> bool {
	if i < right {
		return false;
	}
	let p = i - right;
	let lo = p.saturating_sub(left);
	let xp = xs[p];
	xs[lo..p].iter().all(|&x| x >= xp) && xs[p + 1..=i].iter().all(|&x| x > xp)
}

// ---------------------------------------------------------------------------------------------
// Method references (DESIGN §3.1, Appendix A.1). Streaming objects that keep the whole input history
// and recompute finite-window quantities from scratch with compensated sums; recurrences are run in
// f64. Every output is an `Ap` whose radius is the error model of the method's algorithm class.

use crate::errm::radius;
use crate::reg::{Class, In, Par};

/// reference of a method with scalar (or pair / candle) input and scalar output
pub trait RefM {
	/// `impl_out` is the implementation's output of this step; it is used only to re-synchronise a
	/// recursive reference after a step where the formula was undefined within the allowance
	/// (NaN = not available)
	fn next(&mut self, x: &In, impl_out: f64) -> Ap;
	/// scalar input given in f64 (used by the indicator references, whose intermediate values are not ValueType)
	fn next_f(&mut self, x: f64, impl_out: f64) -> Ap {
		self.next(&In::V(x as V), impl_out)
	}
}

fn inv(x: &In) -> f64 {
	match x {
		In::V(v) => *v as f64,
		In::P(a, _) => *a as f64,
		In::C(c) => c.close as f64,
	}
}

/// history with the construction value as infinite prehistory; only the last `keep` values are stored
#[derive(Clone, Debug)]
pub struct Hist {
	pub init: f64,
	pub xs: Vec<f64>,
	pub mag: f64,
	pub count: usize,
	pub keep: usize,
	/// running (compensated) sum of everything pushed and the largest partial sum, for cumulative methods
	pub total: crate::ap::KSum,
	pub max_partial: f64,
}
impl Hist {
	pub fn new(init: f64) -> Self {
		Self { init, xs: Vec::new(), mag: init.abs(), count: 0, keep: usize::MAX, total: crate::ap::KSum::new(), max_partial: 0.0 }
	}
	pub fn with_keep(init: f64, keep: usize) -> Self {
		let mut h = Self::new(init);
		h.keep = keep.max(4);
		h
	}
	pub fn push(&mut self, x: f64) {
		self.mag = self.mag.max(x.abs());
		self.xs.push(x);
		self.count += 1;
		self.total.add(x);
		self.max_partial = self.max_partial.max(self.total.get().abs());
		if self.keep != usize::MAX && self.xs.len() > 2 * self.keep + 64 {
			let cut = self.xs.len() - self.keep;
			self.xs.drain(..cut);
		}
	}
	/// number of values pushed
	pub fn t(&self) -> usize {
		self.count
	}
	/// i-th newest (0 = newest)
	#[inline]
	pub fn ago(&self, i: usize) -> f64 {
		let n = self.xs.len();
		if i < n {
			self.xs[n - 1 - i]
		} else if i < self.count {
			panic!("harness: history trimmed too far (asked {i}, kept {n})")
		} else {
			self.init
		}
	}
	/// last n values, newest first
	pub fn window(&self, n: usize) -> impl Iterator<Item = f64> + '_ {
		(0..n).map(move |i| self.ago(i))
	}
}

/// stored tail of a derived series with the same trimming
#[derive(Clone, Debug, Default)]
pub struct Tail {
	pub xs: Vec<f64>,
	pub count: usize,
	pub keep: usize,
}
impl Tail {
	pub fn new(keep: usize) -> Self {
		Self { xs: Vec::new(), count: 0, keep: keep.max(4) }
	}
	pub fn push(&mut self, x: f64) {
		self.xs.push(x);
		self.count += 1;
		if self.xs.len() > 2 * self.keep + 64 {
			let cut = self.xs.len() - self.keep;
			self.xs.drain(..cut);
		}
	}
	pub fn ago(&self, i: usize, dflt: f64) -> f64 {
		let n = self.xs.len();
		if i < n {
			self.xs[n - 1 - i]
		} else if i < self.count {
			panic!("harness: tail trimmed too far")
		} else {
			dflt
		}
	}
}

pub fn wma_weights(n: usize) -> Vec<f64> {
	// newest first: n, n-1, ..., 1
	(0..n).map(|i| (n - i) as f64).collect()
}
pub fn swma_weights(n: usize) -> Vec<f64> {
	// symmetric triangle 1,2,..,ceil(n/2),floor(n/2),..,2,1 (newest first is the same by symmetry for odd n;
	// for even n: oldest->newest 1,2,..,n/2,n/2,..,2,1 also symmetric)
	(0..n).map(|i| ((i + 1).min(n - i)) as f64).collect()
}
/// least-squares line through (-i, x_i), i = 0..n-1 (i = age), evaluated at 0: weights on x_i (newest first)
pub fn linreg_weights(n: usize) -> Vec<f64> {
	let nf = n as f64;
	// value at 0 = mean_y - slope * mean_x with abscissa -i: closed form w_i = (2(2n-1) - 6i) / (n(n+1))
	(0..n).map(|i| (2.0 * (2.0 * nf - 1.0) - 6.0 * i as f64) / (nf * (nf + 1.0))).collect()
}

fn weighted(h: &Hist, w: &[f64]) -> (f64, f64) {
	// returns (sum w_i x_i / sum w_i, sum|w_i| / |sum w_i|)
	let num = ksum(w.iter().enumerate().map(|(i, wi)| wi * h.ago(i)));
	let den = ksum(w.iter().cloned());
	let abs = ksum(w.iter().map(|x| x.abs()));
	(num / den, abs / den.abs())
}

pub struct RefFir {
	pub h: Hist,
	pub w: Vec<f64>,
	pub class: Class,
	pub n: usize,
}
impl RefM for RefFir {
	fn next(&mut self, x: &In, o: f64) -> Ap {
		self.next_f(inv(x), o)
	}
	fn next_f(&mut self, xin: f64, _o: f64) -> Ap {
		self.h.push(xin);
		let (v, amp) = weighted(&self.h, &self.w);
		if !amp.is_finite() {
			return Ap::undefined();
		}
		Ap::new(v, radius(self.class, self.n as f64, self.h.t() as f64, self.h.mag * amp.max(1.0), 4.0))
	}
}

pub struct RefTrima {
	h: Hist,
	inner: Tail,
	n: usize,
}
impl RefM for RefTrima {
	fn next(&mut self, x: &In, o: f64) -> Ap {
		self.next_f(inv(x), o)
	}
	fn next_f(&mut self, xin: f64, _o: f64) -> Ap {
		self.h.push(xin);
		let n = self.n;
		self.inner.push(ksum(self.h.window(n)) / n as f64);
		let t = self.inner.count;
		let v = ksum((0..n).map(|i| self.inner.ago(i, self.h.init))) / n as f64;
		Ap::new(v, 2.0 * radius(Class::Accum, n as f64, t as f64, self.h.mag, 4.0))
	}
}

pub struct RefHma {
	h: Hist,
	d: Tail,
	n: usize,
}
impl RefM for RefHma {
	fn next(&mut self, x: &In, o: f64) -> Ap {
		self.next_f(inv(x), o)
	}
	fn next_f(&mut self, xin: f64, _o: f64) -> Ap {
		self.h.push(xin);
		let n = self.n;
		let (w1, _) = weighted(&self.h, &wma_weights(n / 2));
		let (w2, _) = weighted(&self.h, &wma_weights(n));
		self.d.push(2.0 * w1 - w2);
		let s = (n as f64).sqrt() as usize;
		let t = self.d.count;
		let ws = wma_weights(s);
		let num = ksum(ws.iter().enumerate().map(|(i, w)| w * self.d.ago(i, self.h.init)));
		let v = num / ksum(ws.iter().cloned());
		let tt = t as f64;
		let e = 3.0 * radius(Class::Nested, n as f64, tt, self.h.mag, 4.0) + radius(Class::Nested, s as f64, tt, 3.0 * self.h.mag, 4.0);
		Ap::new(v, e)
	}
}

pub struct RefVwma {
	p: Hist,
	v: Hist,
	n: usize,
}
impl RefM for RefVwma {
	fn next(&mut self, x: &In, _o: f64) -> Ap {
		let (a, b) = match x {
			In::P(a, b) => (*a as f64, *b as f64),
			_ => panic!("harness: VWMA wants pairs"),
		};
		self.p.push(a);
		self.v.push(b);
		let n = self.n;
		let t = self.p.t() as f64;
		let num = ksum((0..n).map(|i| self.p.ago(i) * self.v.ago(i)));
		let den = ksum(self.v.window(n));
		let numa = Ap::new(num, radius(Class::Accum, n as f64, t, n as f64 * self.p.mag * self.v.mag, 6.0));
		let dena = Ap::new(den, radius(Class::Accum, n as f64, t, n as f64 * self.v.mag, 4.0));
		numa / dena
	}
}

pub struct RefWin {
	h: Hist,
	n: usize,
	kind: &'static str,
}
impl RefM for RefWin {
	fn next(&mut self, x: &In, o: f64) -> Ap {
		self.next_f(inv(x), o)
	}
	fn next_f(&mut self, xin: f64, _o: f64) -> Ap {
		self.h.push(xin);
		let n = self.n;
		let nf = n as f64;
		let t = self.h.t() as f64;
		let m = self.h.mag;
		match self.kind {
			"Integral" => {
				if n == 0 {
					// cumulative: plain prefix sum starting from 0
					Ap::new(self.h.total.get(), radius(Class::Cumulative, 1.0, t, self.h.max_partial.max(m), 2.0))
				} else {
					Ap::new(ksum(self.h.window(n)), radius(Class::Accum, nf, t, nf * m, 4.0))
				}
			}
			"Derivative" => {
				let v = (self.h.ago(0) - self.h.ago(n)) / nf;
				Ap::new(v, C * EPS * (3.0 * v.abs() + 2.0 * EPS * m / nf) + crate::ap::TINY)
			}
			"Momentum" => {
				let v = self.h.ago(0) - self.h.ago(n);
				Ap::new(v, C * EPS * v.abs() + crate::ap::TINY)
			}
			"RateOfChange" => {
				let a = Ap::exact(self.h.ago(0));
				let b = Ap::exact(self.h.ago(n));
				let r = (a - b) / b;
				if r.is_undefined() {
					r
				} else {
					Ap::new(r.v, C * r.e)
				}
			}
			"Past" => Ap::exact(self.h.ago(n)),
			"StDev" => {
				let mean = ksum(self.h.window(n)) / nf;
				let var = ksum(self.h.window(n).map(|x| (x - mean) * (x - mean))) / (nf - 1.0);
				let va = Ap::new(var, radius(Class::Accum, nf, t, 2.0 * m * m, 8.0));
				va.abs().sqrt()
			}
			"MeanAbsDev" => {
				let mean = ksum(self.h.window(n)) / nf;
				let v = ksum(self.h.window(n).map(|x| (x - mean).abs())) / nf;
				Ap::new(v, radius(Class::Accum, nf, t, m, 4.0) + radius(Class::Direct, nf, t, m, 4.0))
			}
			"MedianAbsDev" => {
				let mut s: Vec<f64> = self.h.window(n).collect();
				s.sort_by(|a, b| a.partial_cmp(b).unwrap());
				let med = (s[n / 2] + s[(n - 1) / 2]) * 0.5;
				let v = ksum(s.iter().map(|x| (x - med).abs())) / nf;
				Ap::new(v, radius(Class::Direct, nf, t, m, 6.0))
			}
			"CCI" => {
				let mean = ksum(self.h.window(n)) / nf;
				let mad = ksum(self.h.window(n).map(|x| (x - mean).abs())) / nf;
				let e_mean = radius(Class::Accum, nf, t, m, 4.0);
				let mada = Ap::new(mad, e_mean + radius(Class::Direct, nf, t, m, 4.0));
				let num = Ap::new(self.h.ago(0) - mean, e_mean + C * EPS * m);
				match mada.is_zero() {
					Tri::Yes => Ap::exact(0.0),
					Tri::No if mada.lo() > 0.0 => num / mada,
					// |x - mean| <= n * MAD always, and 0 is returned when MAD is not positive
					_ => Ap::from_interval(-nf, nf),
				}
			}
			"LinearVolatility" => {
				// sum of the last n |x_i - x_{i-1}|; differences before the stream are 0, the first is |x_0 - init|
				let tt = self.h.t();
				let v = ksum((0..n).filter(|i| *i < tt).map(|i| (self.h.ago(i) - self.h.ago(i + 1)).abs()));
				Ap::new(v, radius(Class::Accum, nf, t, 2.0 * nf * m, 4.0))
			}
			_ => panic!("harness: unknown windowed reference {}", self.kind),
		}
	}
}

pub struct RefConv {
	h: Hist,
	w: Vec<f64>,
}
impl RefM for RefConv {
	fn next(&mut self, x: &In, o: f64) -> Ap {
		self.next_f(inv(x), o)
	}
	fn next_f(&mut self, xin: f64, _o: f64) -> Ap {
		self.h.push(xin);
		let m = self.w.len();
		// last weight on the newest value
		let num = ksum((0..m).map(|i| self.w[m - 1 - i] * self.h.ago(i)));
		let den = ksum(self.w.iter().cloned());
		let wabs = ksum(self.w.iter().map(|x| x.abs()));
		let numa = Ap::new(num, C * EPS * wabs * self.h.mag * (m as f64 + 4.0) + crate::ap::TINY);
		let dena = Ap::new(den, C * EPS * wabs * (m as f64 + 2.0));
		numa / dena
	}
}

/// rounding term of a recurrence step: exactly zero when everything involved is exactly zero
/// rounding term k * mags of a recurrence step: exactly zero only when the magnitudes involved are exactly zero
/// (a product that underflows still leaves an absolute error of the size of the smallest normal number)
fn tk2(k: f64, mags: f64) -> f64 {
	if mags == 0.0 {
		0.0
	} else {
		k * mags + crate::ap::TINY
	}
}

fn tk(x: f64) -> f64 {
	if x == 0.0 {
		0.0
	} else {
		x + crate::ap::TINY
	}
}

/// EMA-family recurrences, run in f64. The radius follows the same contraction as the value:
/// e' = (1-a) e + C eps (|x| + |y|) per stage, so it forgets old magnitudes geometrically like the signal does.
pub struct RefEma {
	kind: &'static str,
	alpha: f64,
	s: [f64; 3],
	e: [f64; 3],
}
impl RefM for RefEma {
	fn next(&mut self, x: &In, o: f64) -> Ap {
		self.next_f(inv(x), o)
	}
	fn next_f(&mut self, xin: f64, _o: f64) -> Ap {
		let x = xin;
		let a = self.alpha;
		let k = C * EPS * 3.0;
		// the update y + a (x - y) rounds at the magnitude of x, of the old y and of the new y
		let o0 = self.s[0].abs();
		self.s[0] += a * (x - self.s[0]);
		self.e[0] = (1.0 - a) * self.e[0] + tk2(k, x.abs() + o0 + self.s[0].abs());
		let o1 = self.s[1].abs();
		self.s[1] += a * (self.s[0] - self.s[1]);
		self.e[1] = (1.0 - a) * self.e[1] + a * self.e[0] + tk2(k, self.s[0].abs() + o1 + self.s[1].abs());
		let o2 = self.s[2].abs();
		self.s[2] += a * (self.s[1] - self.s[2]);
		self.e[2] = (1.0 - a) * self.e[2] + a * self.e[1] + tk2(k, self.s[1].abs() + o2 + self.s[2].abs());
		let (e, ee, eee) = (self.s[0], self.s[1], self.s[2]);
		let (r1, r2, r3) = (self.e[0], self.e[1], self.e[2]);
		let (v, rad) = match self.kind {
			"EMA" | "RMA" | "WSMA" => (e, r1),
			"DMA" => (ee, r2),
			"TMA" => (eee, r3),
			"DEMA" => (2.0 * e - ee, 2.0 * r1 + r2 + k * (e.abs() + ee.abs())),
			"TEMA" => (3.0 * (e - ee) + eee, 3.0 * r1 + 3.0 * r2 + r3 + k * 3.0 * (e.abs() + ee.abs() + eee.abs())),
			_ => panic!("harness"),
		};
		Ap::new(v, rad)
	}
}

pub struct RefTsi {
	last: f64,
	a_short: f64,
	a_long: f64,
	m: [f64; 2],
	me: [f64; 2],
	a: [f64; 2],
	ae: [f64; 2],
}
impl RefM for RefTsi {
	fn next(&mut self, x: &In, _o: f64) -> Ap {
		let x = inv(x);
		let mom = x - self.last;
		self.last = x;
		let k = C * EPS * 3.0;
		let e0 = EPS * mom.abs();
		let stage = |s: &mut [f64; 2], e: &mut [f64; 2], input: f64, al: f64, ash: f64| {
			let o0 = s[0].abs();
			s[0] += al * (input - s[0]);
			e[0] = (1.0 - al) * e[0] + al * e0 + tk2(k, input.abs() + o0 + s[0].abs());
			let o1 = s[1].abs();
			s[1] += ash * (s[0] - s[1]);
			e[1] = (1.0 - ash) * e[1] + ash * e[0] + tk2(k, s[0].abs() + o1 + s[1].abs());
		};
		stage(&mut self.m, &mut self.me, mom, self.a_long, self.a_short);
		stage(&mut self.a, &mut self.ae, mom.abs(), self.a_long, self.a_short);
		let num = Ap::new(self.m[1], self.me[1]);
		let den = Ap::new(self.a[1], self.ae[1]);
		match den.gtf(0.0) {
			Tri::Yes => num / den,
			Tri::No => Ap::exact(0.0),
			// denominator not separated from zero by its own error bound: the quotient of two residues is not bounded by the
			// mathematical range either (TSI(1,1) after a 0.03 move followed by a 9e-18 move: (m+r1)/(|m|+r2) = 1.5) => undefined
			Tri::Maybe => Ap::undefined(),
		}
	}
}

/// inputs on which every running sum of up to 254 changes is exact in the ValueType (f64: multiples of 2^-16 up to
/// 2^24; f32: multiples of 1/4 up to 2^11)
fn is_dyadic(x: f64) -> bool {
	if std::mem::size_of::<V>() == 4 {
		x.abs() <= 2048.0 && (x * 4.0).fract() == 0.0
	} else {
		x.abs() <= 16_777_216.0 && (x * 65536.0).fract() == 0.0
	}
}

pub struct RefVidya {
	h: Hist,
	n: usize,
	y: Ap,
	/// every input so far is a dyadic rational on which all running sums are exact (no residue possible)
	dyadic: bool,
}
impl RefM for RefVidya {
	fn next(&mut self, x: &In, o: f64) -> Ap {
		self.next_f(inv(x), o)
	}
	fn next_f(&mut self, xin: f64, impl_out: f64) -> Ap {
		let xv = xin;
		self.h.push(xv);
		self.dyadic &= is_dyadic(xv);
		let n = self.n;
		let t = self.h.t();
		// changes d_i = x_i - x_{i-1}, d_0 = x_0 - init, earlier 0; last n changes
		let mut up = crate::ap::KSum::new();
		let mut dn = crate::ap::KSum::new();
		let mut cmag = 0.0f64;
		for i in 0..n.min(t) {
			let d = self.h.ago(i) - self.h.ago(i + 1);
			cmag = cmag.max(d.abs());
			if d > 0.0 {
				up.add(d);
			} else {
				dn.add(-d);
			}
		}
		let (up, dn) = (up.get(), dn.get());
		// running sums of the last n changes: accumulator error relative to the largest change ever seen
		let e_acc = radius(Class::Accum, n as f64, t as f64, 2.0 * self.h.mag, 4.0);
		let f = 2.0 / (n as f64 + 1.0);
		let res = if up == 0.0 && dn == 0.0 {
			// no movement in the window: y = x (residues in the implementation's sums make this step ambiguous
			// unless the sums are exactly zero, which the state oracle of C07/C12 judges)
			if self.dyadic {
				// exact sums: the documented rule applies sharply
				Ap::exact(xv)
			} else {
				Ap::exact(xv).hull(if self.y.is_undefined() { Ap::exact(xv) } else { self.y.hull(Ap::exact(xv)) })
			}
		} else {
			let upa = Ap::new(up, e_acc);
			let dna = Ap::new(dn, e_acc);
			let c = ((upa - dna) / (upa + dna)).abs();
			if c.is_undefined() || self.y.is_undefined() {
				Ap::undefined()
			} else {
				// the update is bilinear in (k, y_prev): its extremes over the box are at the corners
				// not clipped to [0,1] on the upper side: residues in the running sums may push the implementation's
				// ratio an allowance above 1; overshoot out of the input range is judged by C15's containment monitor
				let (klo, khi) = (c.lo().max(0.0) * f, c.hi() * f);
				let (ylo, yhi) = (self.y.lo(), self.y.hi());
				let mut lo = f64::INFINITY;
				let mut hi = f64::NEG_INFINITY;
				for k in [klo, khi] {
					for yp in [ylo, yhi] {
						let v = (1.0 - k) * yp + k * xv;
						lo = lo.min(v);
						hi = hi.max(v);
					}
				}
				Ap::from_interval(lo, hi).widen(C * EPS * 6.0 * (xv.abs() + ylo.abs().max(yhi.abs())))
			}
		};
		// re-synchronise after an undefined / ambiguous step
		self.y = if res.is_undefined() || res.e > 1e-3 * (self.h.mag + f64::MIN_POSITIVE) { Ap::rounded(impl_out, 2.0) } else { res };
		let _ = cmag;
		res
	}
}

pub struct RefCandle {
	kind: &'static str,
	n: usize,
	prev_close: f64,
	terms: Vec<Ap>,
	init_term: Ap,
	mag: f64,
	count: usize,
	cum_v: crate::ap::KSum,
	cum_e: f64,
	max_partial: f64,
}
pub fn clv_ap(c: &yata::core::Candle) -> Ap {
	let (h, l, cl) = (c.high as f64, c.low as f64, c.close as f64);
	if h == l {
		return Ap::exact(0.0);
	}
	let m = h.abs().max(l.abs()).max(cl.abs());
	let num = Ap::new((cl - l) - (h - cl), 6.0 * EPS * m);
	num / Ap::rounded(h - l, 1.0)
}
impl RefM for RefCandle {
	fn next(&mut self, x: &In, _o: f64) -> Ap {
		let c = match x {
			In::C(c) => *c,
			_ => panic!("harness: candle expected"),
		};
		match self.kind {
			"TR" => {
				let (h, l, pc) = (c.high as f64, c.low as f64, self.prev_close);
				self.prev_close = c.close as f64;
				let v = (h - l).max((h - pc).abs()).max((l - pc).abs());
				Ap::rounded(v, 2.0)
			}
			"ADI" => {
				let term = clv_ap(&c) * Ap::exact(c.volume as f64);
				self.mag = self.mag.max(term.mag());
				self.terms.push(term);
				self.count += 1;
				self.cum_v.add(term.v);
				self.cum_e += term.e;
				self.max_partial = self.max_partial.max(self.cum_v.get().abs());
				let n = self.n;
				if self.terms.len() > 2 * (n + 2) + 64 {
					let cut = self.terms.len() - (n + 2);
					self.terms.drain(..cut);
				}
				let t = self.count;
				let stored = self.terms.len();
				if n == 0 {
					Ap::new(self.cum_v.get(), self.cum_e + radius(Class::Cumulative, 1.0, t as f64, self.max_partial.max(self.mag), 2.0))
				} else {
					let get = |i: usize| if i < stored { self.terms[stored - 1 - i] } else { self.init_term };
					let v = ksum((0..n).map(|i| get(i).v));
					let e = ksum((0..n).map(|i| get(i).e));
					Ap::new(v, e + radius(Class::Accum, n as f64, t as f64, n as f64 * self.mag, 4.0))
				}
			}
			_ => panic!("harness"),
		}
	}
}

fn par_len(p: &Par) -> usize {
	match p {
		Par::L(l) => *l as usize,
		_ => 0,
	}
}

/// builds the reference of a method (None: no scalar reference for this method)
pub fn make_ref(name: &str, par: &Par, init: &In) -> Option<Box<dyn RefM>> {
	let n = par_len(par);
	let i0 = inv(init);
	let fir = |w: Vec<f64>, class: Class| -> Option<Box<dyn RefM>> { Some(Box::new(RefFir { h: Hist::with_keep(i0, w.len() + 2), n: w.len(), w, class })) };
	let win = |kind: &'static str| -> Option<Box<dyn RefM>> { Some(Box::new(RefWin { h: Hist::with_keep(i0, n + 2), n, kind })) };
	let ema = |kind: &'static str, alpha: f64, _nn: f64| -> Option<Box<dyn RefM>> { Some(Box::new(RefEma { kind, alpha, s: [i0; 3], e: [0.0; 3] })) };
	match name {
		"SMA" => fir(vec![1.0; n], Class::Accum),
		"WMA" => fir(wma_weights(n), Class::Nested),
		"SWMA" => fir(swma_weights(n), Class::Nested),
		"LinReg" => fir(linreg_weights(n), Class::Nested),
		"TRIMA" => Some(Box::new(RefTrima { h: Hist::with_keep(i0, n + 2), inner: Tail::new(n + 2), n })),
		"HMA" => Some(Box::new(RefHma { h: Hist::with_keep(i0, n + 2), d: Tail::new(n + 2), n })),
		"Conv" => match par {
			Par::W(w) => Some(Box::new(RefConv { h: Hist::with_keep(i0, w.len() + 2), w: w.iter().map(|x| *x as f64).collect() })),
			_ => None,
		},
		"VWMA" => match init {
			In::P(a, b) => Some(Box::new(RefVwma { p: Hist::with_keep(*a as f64, n + 2), v: Hist::with_keep(*b as f64, n + 2), n })),
			_ => None,
		},
		"Integral" | "Derivative" | "Momentum" | "RateOfChange" | "Past" | "StDev" | "MeanAbsDev" | "MedianAbsDev" | "CCI" | "LinearVolatility" => win(match name {
			"Integral" => "Integral",
			"Derivative" => "Derivative",
			"Momentum" => "Momentum",
			"RateOfChange" => "RateOfChange",
			"Past" => "Past",
			"StDev" => "StDev",
			"MeanAbsDev" => "MeanAbsDev",
			"MedianAbsDev" => "MedianAbsDev",
			"CCI" => "CCI",
			_ => "LinearVolatility",
		}),
		"EMA" => ema("EMA", 2.0 / (n as f64 + 1.0), n as f64),
		"DMA" => ema("DMA", 2.0 / (n as f64 + 1.0), n as f64),
		"TMA" => ema("TMA", 2.0 / (n as f64 + 1.0), n as f64),
		"DEMA" => ema("DEMA", 2.0 / (n as f64 + 1.0), n as f64),
		"TEMA" => ema("TEMA", 2.0 / (n as f64 + 1.0), n as f64),
		"RMA" => ema("RMA", 1.0 / n as f64, 2.0 * n as f64),
		"WSMA" => ema("WSMA", 1.0 / n as f64, 2.0 * n as f64),
		"TSI" => match par {
			Par::LL(s, l) => Some(Box::new(RefTsi { last: i0, a_short: 2.0 / (*s as f64 + 1.0), a_long: 2.0 / (*l as f64 + 1.0), m: [0.0; 2], me: [0.0; 2], a: [0.0; 2], ae: [0.0; 2] })),
			_ => None,
		},
		"Vidya" => Some(Box::new(RefVidya { h: Hist::with_keep(i0, n + 3), n, y: Ap::exact(i0), dyadic: is_dyadic(i0) })),
		"TR" | "ADI" => match init {
			In::C(c) => {
				let term = clv_ap(c) * Ap::exact(c.volume as f64);
				Some(Box::new(RefCandle { kind: if name == "TR" { "TR" } else { "ADI" }, n, prev_close: c.close as f64, terms: Vec::new(), init_term: term, mag: term.mag(), count: 0, cum_v: crate::ap::KSum::new(), cum_e: 0.0, max_partial: 0.0 }))
			}
			_ => None,
		},
		_ => None,
	}
}
