//! Reference models written from the documentation (DESIGN §3.1, Appendix A): naive, from scratch.
use crate::ap::{ksum, Ap, Tri, C, EPS};
use crate::V;

// ---------------------------------------------------------------------------------------------
// C14 reference detectors (exact)

/// previous difference; `None` = default() (0)
#[derive(Clone, Copy, Debug)]
pub struct RefCross {
	pub prev: V,
}
impl RefCross {
	pub fn new(v: V, b: V) -> Self {
		Self { prev: v - b }
	}
	pub fn default() -> Self {
		Self { prev: 0.0 }
	}
	/// returns (above, under)
	pub fn next(&mut self, v: V, b: V) -> (bool, bool) {
		let d = v - b;
		let p = self.prev;
		self.prev = d;
		(p < 0.0 && d >= 0.0, p > 0.0 && d <= 0.0)
	}
	/// Cross as -1/0/+1
	pub fn cross(&mut self, v: V, b: V) -> i8 {
		let (a, u) = self.next(v, b);
		a as i8 - u as i8
	}
}

/// Upper reversal at step i (0-based) of history xs[0..=i] (xs[0] is also the construction value)
pub fn upper_reversal(xs: &[f64], i: usize, left: usize, right: usize) -> bool {
	if i < right {
		return false;
	}
	let p = i - right;
	let lo = p.saturating_sub(left);
	let xp = xs[p];
	xs[lo..p].iter().all(|&x| x <= xp) && xs[p + 1..=i].iter().all(|&x| x < xp)
}
pub fn lower_reversal(xs: &[f64], i: usize, left: usize, right: usize) -> bool {
	if i < right {
		return false;
	}
	let p = i - right;
	let lo = p.saturating_sub(left);
	let xp = xs[p];
	xs[lo..p].iter().all(|&x| x >= xp) && xs[p + 1..=i].iter().all(|&x| x > xp)
}
