#!/usr/bin/env python3
"""Regenerates MANIFEST.json from the table below (kept in one place so it is always schema-valid)."""
import json, subprocess

def hook_commits():
    try:
        out = subprocess.run(["git", "-C", "/repo", "log", "--format=%H %s"], stdout=subprocess.PIPE, text=True).stdout
        return [l.split()[0] for l in out.splitlines() if " verif-hook:" in " " + l.split(" ", 1)[1] or l.split(" ", 1)[1].startswith("verif-hook")]
    except Exception:
        return []

TB = "Trusted base: rustc/cargo, the harness (reference models, error models of DESIGN §3, generators), serde_json Value fidelity; for memory claims additionally Miri (Stacked Borrows), AddressSanitizer and the yata_verif bounds hook."

CHECKS = {
 "C01": ("runtime monitoring: model-based oracle (VecDeque) over every Window observer at every ring phase of every capacity, unique labels; unsafe build with bounds hook; Miri",
         "Exploration with complete enumeration of the finite dimensions: all capacities 0..=254 x every ring phase x every observer (incl. every consumed prefix of both iterators in thorough), rebuild paths (from_parts at every index, serde, From<Vec>/From<Box>), adversarial serialized forms; re-run on the unsafe_performance build with the bounds hook and under Miri for small capacities. Right level: the state space of a Window with labelled elements is finite and small, so observing every reachable (capacity, phase) state decides the property for the code as built.", "§4 C01"),
 "C02": ("runtime monitoring: reference-model oracle - naive from-scratch evaluation (compensated sums, f64) of each documented formula on the real input history, two-sided comparison within an a-priori error model (DESIGN 3.2)",
         "Exploration: 19 sliding-window methods x every length 1..=254 x 2 stream classes rotated by seed (all 10 classes at 24 stratified lengths; thorough: all classes x all lengths x 3000 steps) x 600 steps incl. the warm-up region; Conv over 4 weight families. Classes: positive, signed, plateaus, spikes with scale jumps 1e-6..1e6 (and rare 1e-40/1e15 scales), ramps, tie-heavy alphabets with signed zeros, exact dyadic grid (where every running sum is exact, so any drift is a logic error), volatile->flat->volatile, constant, large mean with tiny variance. Evidence reports max observed error/radius per method (typically < 0.1) and exempt-step counts. Re-run on the unsafe_performance build.", "§4 C02"),
 "C03": ("runtime monitoring: reference-model oracle - the documented recurrences run in f64 alongside the real instance, radius following the same contraction as the value",
         "Exploration: EMA/DMA/TMA/DEMA/TEMA/RMA/WSMA/TSI/Vidya/TR/cumulative Integral and ADI at every length (TSI: sampled (short,long) pairs) on the ten stream classes, HeikinAshi's open/close recursion on five candle classes. The radius of the recursive references decays with the signal (e' = (1-a)e + C eps(|x|+|y|)), so a guard that swallows small denominators or a stale state after a flat stretch is outside the allowance; Vidya's no-movement rule is checked exactly on dyadic streams.", "§4 C03"),
 "C04": ("runtime monitoring: exact model oracle (max/min/age of newest extremum/median of the model window, ==) on exhaustive short sequences over tie/signed-zero alphabets and hostile streams for every length; unsafe build with bounds hook; Miri",
         "Exploration with exhaustive sub-spaces: all 4^9 (4^11) sequences over three 4-symbol alphabets ({-0,+0,1,2}, {0,1,2,3}, {-1,-0,+0,1}) for every length 1..=6 - the selection algorithms only compare, so this enumerates every order/tie/zero-sign pattern around short windows - plus plateau/tie/grid/ramp/mixed-sign streams for every length 1..=254. No tolerance. Re-run on the unsafe_performance build (SMM's raw copy under the bounds hook) and a reduced set under Miri.", "§4 C04"),
 "C05": ("runtime monitoring: reference-model oracle - one independent reference per indicator, composed from the method references in Approx (midpoint+radius) arithmetic, compared with every raw value at every step",
         "Exploration: all 36 indicators x 24 (200) generated configurations (every MA kind where one is configurable, boundary periods, all sources, float parameters over their range) x 4 (7) candle classes (walk with gaps/doji, exactly flat stretches, zero-volume bars and stretches with huge volumes, exact grid, trends, 700-step ramps) x 400 (1500) steps. The value order in the result is part of the check. Steps where the formula is undefined within the allowance (ambiguous zero denominators) are exempt and counted; evidence reports exempt fractions and max error/radius per slot. Where documentation and code demonstrably disagree the code's rule is what is checked and the disagreement is reported under its own signature.", "§4 C05"),
 "C06": ("runtime monitoring: three-valued signal oracle - each documented signal rule evaluated on the reference values (crossings, zones, reversals, latches, proportional strengths); Exempt when the deciding quantity is within its radius of the threshold",
         "Exploration: same executions as C05 plus streams with 1/2/13 leading copies of the first candle (signal prefix-invariance of C08). Every one of the ~60 signal slots is judged on non-exempt steps: fired without condition / silent although the condition holds / wrong direction / wrong proportional strength (+-1 step at a rounding boundary). Coverage cells record, per slot, how often it fired each way and stayed silent.", "§4 C06"),
 "C07": ("runtime monitoring: long-stream monitors - every step of 1e6..1e7-step streams with regime changes checked against the from-scratch / recurrence references, exact models for selections and detectors, fresh-instance-primed-with-the-last-window differential at checkpoints, position-independent tolerance on exact-grid streams",
         "Exploration: every arithmetic method at a small and a large length (rotated by seed; thorough: three each) over 1e6 (1e7) / 2e5 (2e6) steps through a repeating regime schedule (volatile, volatile->flat->volatile, scale jumps 1e-6..1e6, dyadic grid, plateaus, constant, signed, ramps, large mean, ties); grid-only runs where every running sum is exact and the tolerance does not grow with the position; selections (Highest/Lowest/Delta/Index/SMM/Past) and crossing/reversal detectors exact at every step of 2e6 (3e7)-step tie-heavy streams, i.e. thousands of crossings of the PeriodType capacity; long-lived vs fresh-primed instances at 1e3, 1e4 and every 1e5 steps; indicators at late positions against their reference values. The stated bound is the table of DESIGN 3.2.", "§4 C07"),
 "C08": ("runtime monitoring: metamorphic oracle (no reference) - constant input => constant output without drift; leading copies of the first element => same later outputs; for every method x every length and every indicator x generated configurations",
         "Exploration: every method at every length 1..=254 fed its construction value 2000 (thorough 20000, and 1e6 at six lengths) times with constants from 5e-324 to 1e300 incl. +-0 and non-dyadic values: selections/signals bit-equal to the first output, arithmetic outputs within a fixed number of roundings of the first output at every step (no growth). Prefix invariance with k in {1,2,n-1,n,n+1,3n} leading copies on hostile streams. All 36 indicators x 10 (60) generated configurations (all MA kinds, sources, boundary periods) on constant candles (flat, zero volume, wide) and with leading copies.", "§4 C08"),
 "C09": ("runtime monitoring: differential oracle - every batch/wrapper API against element-wise next (bit equality), random chunkings incl. empty chunks, clone-and-diverge, peek after every step",
         "Exploration: for all 44 methods x 10 (40) lengths and all 36 indicators x 6 (40) configurations: over, Sequence::call, apply, Sequence::apply, new_over, new_apply, into_fn, new_fn, with_history (get/iter/into_iter), with_last_value, Buffered::get, IndicatorConfig::over/init_fn, IndicatorInstance::over/into_fn, the Dyn over/next, 6 (40) random chunkings each, clones taken at 9 points while the original is driven elsewhere, peek() == last output after every step. Bit equality, one output per input. Run in the checked and the release profile.", "§4 C09"),
 "C10": ("runtime monitoring: exhaustive enumeration of parameter values with a panic oracle (catch_unwind) in two profiles (overflow/debug assertions on, and plain release), then hostile valid streams on every accepted instance",
         "Exploration, exhaustive on the finite parameter axes: all 256 values of every single length parameter of every method and of every PeriodType field of every indicator, all 256^2 pairs for TSI and the reversal detectors (thorough; boundary-complete subset in quick), Conv weight lengths 0..=300, Renko sizes over specials, every float field over NaN/inf/0/tiny/huge/negative, every MA field over 15 kinds x boundary periods, 2000 (50000) random joint configurations per indicator, 20k (400k) arbitrary strings into the parsers. Outcome must be Ok or Err, Err where validate() is false or the length is documented too small; accepted instances must survive flat / zero-volume / grid / trending / 700-step monotone streams. Both the checked and the release profile are run because they differ exactly here.", "§4 C10"),
 "C11": ("runtime monitoring: interface-contract oracle over every indicator: result shape at every step, names, static-vs-dyn bit equality, set() round trip through the serialized configuration, unknown names / unparsable text, documented defaults parsed from the field docs",
         "Exploration: 36 indicators (+Example) x 12 (100) generated configurations x 300 (600) candles for shape/name/dyn equivalence; every public field (discovered from the serialized configuration) x 40 (2000) fresh values: set() must change exactly that key to exactly the parsed value; ~20 unparsable texts per field and ~150 (700) unknown names must return Err and leave the configuration unchanged; default configurations validate, initialise and equal the defaults stated in the field documentation.", "§4 C11"),
 "C12": ("runtime monitoring: invariant monitors at the API boundary (ranges, band ordering, channel containment, SAR side, non-negativity, finiteness) with a fixed tolerance and no exemption, on regime streams aimed at running-sum residues",
         "Exploration: the 15 indicators with documented ranges/orderings x 40 (400) configurations x 5 candle classes x 3 (10) streams whose exactly-flat stretches are longer than the largest period of the configuration, all other indicators for finiteness; LinearVolatility/StDev/MeanAbsDev/MedianAbsDev/TR >= -allowance and TSI, CLV in [-1,1] at every length. Tolerance 16 eps relative to the bound (plus the averaging stage's own allowance only where the property is containment of an average). Violations are classified by root cause: explained by a running-sum residue of the measured relative size, or not.", "§4 C12"),
 "C13": ("runtime monitoring: differential oracle original-vs-restored (serde through serde_json::Value and JSON text) at many snapshot points, plus adversarial mutation of every embedded window",
         "Exploration: every method x 12 (254) lengths x snapshot points after 0..=3n steps (every ring phase for small n, windowless ADI/Integral included) x continuation of 2n+50 steps bit-identical, re-serialization equality, text round trip; every indicator x 6 (60) configurations x 7 snapshot points; configuration round trips. Every {buf,index} object embedded in any method/indicator state is mutated 16 ways (index = len, len+1, MAX, >MAX; buffers of MAX, MAX+1, 1000 elements; wrong types; missing fields): malformed => Err, never a panic. Also run on the unsafe_performance build with the bounds hook.", "§4 C13"),
 "C14": ("runtime monitoring: definitional reference detectors vs the real ones, exhaustive short sequences over small alphabets + hostile long streams",
         "Exploration: crossing detectors on all sequences of length 8 (10) over the four difference classes {-1,-0,+0,1} (complete for the two-step rule) plus random touch-heavy pairs of streams; reversal detectors on all sequences of length 9 (11) over 3-symbol alphabets for small (left,right), 400 stratified (thorough: all 32131) pairs x 800-step plateau/tie streams, and 1e5..1e6-step streams that cross the PeriodType capacity thousands of times. Oracle is the definition evaluated from scratch on the history.", "§4 C14"),
 "C15": ("runtime monitoring: metamorphic oracles over pairs/triples of runs of the same build - exact scaling by -1 and powers of two, affine maps within the allowance, constant reproduction, range containment, superposition, impulse response = documented weight profile",
         "Exploration: all 15 MA kinds x ALL lengths 1..=254 for the impulse response (compared with the closed-form weight profile: flat, ramp, triangle, SMA*SMA, geometric and its cascades, 2E-EE, 3E-3EE+EEE, Hull and least-squares weights), for constants and for bit-exact scaling by {-1, 2, 1/2, -4, 1024, 2^-60, -2^-58, 2^40}; general affine maps, containment in [min,max] of the horizon for the non-negative-weight kinds and superposition on exact-grid streams for a stratified set of lengths x 3 (8) classes; Conv (random weight vectors up to 253) and VWMA (incl. zero-volume bars). Vidya's adaptive ratio is compared with a conditioning-aware tolerance.", "§4 C15"),
 "C16": ("runtime monitoring: exhaustive enumeration of the finite Action algebra against its laws (513 actions, 513^2 pairs, 513^3 triples, all i8, all 2^32 f32 in thorough)",
         "Exploration, exhaustive on the finite parts: every action, every pair (sub, eq, cmp), every triple (transitivity), every i8, every f32 bit pattern (thorough; 2^24 stratified in quick), every f64 rounding boundary +-8 ulps and specials, 2e5..1e6 random f64. The laws are the property's own (strength arithmetic in 1/255 units), not a copy of the code.", "§4 C16"),
 "C18": ("runtime monitoring: formula oracles on every candle of an exhaustive special-value product and of generated streams; text-form round-trip and rejection fuzzing",
         "Exploration with an exhaustive special-value product (10^4 price combinations x 11 volumes incl. NaN/-NaN/+-0/inf) for validate and the helper formulas, bit-exact checks of the single-operation helpers, interval check of clv, bit-exact tr_close identity, associativity of +, and text forms: all 8 sources, 15 MA kinds x all 256 lengths, thousands of arbitrary and near-miss strings that must be rejected without panic.", "§4 C18"),
}

NOT_YET = {}

def main():
    props = [json.loads(l) for l in open("properties.jsonl")]
    checks = []
    na = []
    for p in props:
        pid = p["id"]
        if pid in CHECKS:
            tech, text, ref = CHECKS[pid]
            checks.append(dict(
                property_id=pid,
                quick_cmd="./check %s quick" % pid,
                thorough_cmd="./check %s thorough" % pid,
                evidence_file="/verif/evidence/%s.json" % pid,
                replay_cmd_template="./check %s --replay {path}" % pid,
                engine="yv",
                level_claimed=dict(category="exploration", text=text, design_ref=ref),
                level_note=TB,
                technique=tech,
            ))
        else:
            na.append(dict(property_id=pid, reason=NOT_YET.get(pid, "monitor not built yet in this session (planned in DESIGN.md §4); not claimed until its check exists")))
    m = dict(
        version=1,
        setup_cmd="./check setup",
        hooks=dict(guard="yata_verif", enable="RUSTFLAGS='--cfg yata_verif' (set by ./check for the builds that use hooks)",
                   baseline_off_cmd="cd /repo && cargo test --workspace --no-fail-fast --offline",
                   source_commits=hook_commits(), add_only=True),
        engines=[dict(name="yv", path="/verif/harness", serves_properties=sorted(CHECKS), kind_free_text="Rust monitor binary (reference models, metamorphic and differential oracles, coverage cells) built against /repo's working tree in several feature/profile builds, sharded by ./check; plus Miri and ASan runs of the same binary")],
        checks=checks,
        notes="All checks are runtime monitors over real executions of the crate (DESIGN.md). ./check <id> quick|thorough; VERIF_SEED selects the random workloads.",
        not_applicable=na,
    )
    json.dump(m, open("MANIFEST.json", "w"), indent=1)

main()
